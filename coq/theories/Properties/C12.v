(* Properties/C12.v — genomic binning.  Statements only; every proof is `exact`.
   All statements are about [gbins], i.e. the definition regenerated from
   /repo/gffutils/bins.py on every run. *)
From GV Require Import Base.Prelude Model.Bins Model.DB Model.Import Proofs.BinsProofs Proofs.C12Proofs Proofs.C12Import.
Open Scope Z_scope.

(* one=True: an integer that is a real bin of the 5-level scheme *)
Theorem C12_one_is_bin : forall f s e, in_range f s e = true ->
  exists b off sh i, gbins f s e true = RInt b /\ is_bin_of b off sh i.
Proof. exact l_one_is_bin. Qed.
Print Assumptions C12_one_is_bin.

(* ... whose extent contains 0-based [s-off, e] (the closed interval plus the following
   base) and which is the FINEST bin doing so *)
Theorem C12_one_exact : forall f s e, in_range f s e = true ->
  exists b off sh i, gbins f s e true = RInt b /\ is_bin_of b off sh i /\
    contains sh i (s - coord_off f) /\ contains sh i e /\
    (forall off' sh' i', In (off', sh') levels -> sh' < sh ->
        ~ (contains sh' i' (s - coord_off f) /\ contains sh' i' e)).
Proof. exact l_one_exact. Qed.
Print Assumptions C12_one_exact.

(* one=False: a set ... *)
Theorem C12_set_is_set : forall f s e, exists rs, gbins f s e false = RSet rs.
Proof. exact l_set_is_set. Qed.
Print Assumptions C12_set_is_set.

(* ... containing every bin (off+i) whose extent meets the interval [s-off, e-1] *)
Theorem C12_set_complete : forall f s e off sh i x, in_range f s e = true ->
  In (off, sh) levels -> s - coord_off f <= x <= e - 1 -> contains sh i x ->
  gbin_set_mem f (off + i) s e = true.
Proof. exact l_set_complete. Qed.
Print Assumptions C12_set_complete.

(* ... and only bin 1 or bins meeting the interval plus the following base *)
Theorem C12_set_tight : forall f s e b, in_range f s e = true -> s - coord_off f <= e ->
  gbin_set_mem f b s e = true ->
  b = 1 \/ exists off sh i x, In (off, sh) levels /\ b = off + i /\
            s - coord_off f <= x <= e /\ contains sh i x.
Proof. exact l_set_tight. Qed.
Print Assumptions C12_set_tight.

(* out of range: bin 1, and the result constructor follows `one` *)
Theorem C12_out_of_range : forall f s e, in_range f s e = false ->
  gbins f s e true = RInt 1 /\ gbins f s e false = RSet [(1,1)].
Proof. exact l_out_of_range. Qed.
Print Assumptions C12_out_of_range.

(* overlapping (or nested) intervals: the stored bin of one is among the query bins of the
   other, for every in-range query; an out-of-range stored feature has bin 1, which is in
   every set *)
Theorem C12_overlap_sound : forall f fs fe qs qe, in_range f qs qe = true ->
  fs <= qe -> qs <= fe -> gbin_set_mem f (gbin_one f fs fe) qs qe = true.
Proof. exact l_overlap_sound. Qed.
Print Assumptions C12_overlap_sound.

Theorem C12_one_in_every_set : forall f s e, gbin_set_mem f 1 s e = true.
Proof. exact l_one_in_every_set. Qed.
Print Assumptions C12_one_in_every_set.

(* a Feature's bin *)
Theorem C12_feature_bin : forall s e, gfeature_bin (Some s) (Some e) = Some (gbin_one Gff s e)
                          /\ gfeature_bin None (Some e) = None /\ gfeature_bin None None = None
                          /\ (s < MAXC -> gfeature_bin (Some s) None = None).
Proof. exact l_feature_bin. Qed.
Print Assumptions C12_feature_bin.

(* "The bin stored with every imported feature equals bins(start, end)": an invariant of whole imports by either importer,
   under every strategy, id_spec and force_merge_fields, from any database whose bins are consistent - the empty one, and
   hence, by induction, after every history of create_db and update calls (inserts, replacements and merges all keep it;
   derived GTF features are binned from their derived coordinates) *)
Theorem C12_import_gff_bins : forall call strat force spec fs st st',
  import_gff call strat force spec fs st = Ok st' -> bins_ok st -> bins_ok st'.
Proof. exact l_import_gff_bins. Qed.
Print Assumptions C12_import_gff_bins.

Theorem C12_import_gtf_bins : forall call g strat force spec fs st st',
  import_gtf call g strat force spec fs st = Ok st' -> bins_ok st -> bins_ok st'.
Proof. exact l_import_gtf_bins. Qed.
Print Assumptions C12_import_gtf_bins.
