(* Properties/C15.v — interfeatures, introns, splice sites.  Statements only; every proof is `exact`.
   [interfeatures c fs] models FeatureDB.interfeatures over the features [fs] in the given order
   (create_introns calls it with the start-ordered level-1 exon children of each transcript);
   [gaps fs] are the consecutive pairs on one seqid with at least one base between them. *)
From GV Require Import Base.Prelude Base.PyStr Model.Bins Model.DB Model.Parser Model.Query Model.Import Model.Attrs Model.Inter
  Proofs.C15Proofs.
Open Scope Z_scope.

(* exactly one feature per gap, in order, none for touching/overlapping pairs or across seqids; each spans
   previous.end+1 .. next.start-1, typed new_featuretype or inter_A_B, stranded like both neighbours or '.',
   attributes = merge_attributes of the neighbours (+ update_attributes), several ID values joined by '-',
   bin recomputed from the new coordinates *)
Theorem C15_inter_exact : forall c fs out, interfeatures c fs = Ok out -> Forall2 (gap_spec c) (gaps fs) out.
Proof. exact l_inter_exact. Qed.
Print Assumptions C15_inter_exact.

Theorem C15_gaps : forall a b l, gaps (a :: b :: l) =
  (if str_eqb (r_seqid a) (r_seqid b) && match r_end a, r_start b with Some e, Some s => e + 1 <=? s - 1 | _, _ => false end
   then [(a, b)] else []) ++ gaps (b :: l).
Proof. exact l_gaps_unfold. Qed.
Print Assumptions C15_gaps.

Theorem C15_count_le : forall c fs out, interfeatures c fs = Ok out -> (length out <= Nat.pred (length fs))%nat.
Proof. exact l_count_le. Qed.
Print Assumptions C15_count_le.

(* splice sites: the two-base sites [start, start+1] and [end-1, end] of each such intron, ID prefixed with the label *)
Theorem C15_splice_sites : forall left tstrand merge numeric exons sites,
  splice_side left tstrand merge numeric exons = Ok sites ->
  exists introns, interfeatures (mkICfg (Some (site_type left tstrand)) merge numeric []) exons = Ok introns /\
                  Forall2 (site_of left (site_type left tstrand)) introns sites.
Proof. exact l_splice_sites. Qed.
Print Assumptions C15_splice_sites.

(* five-/three-prime according to side and transcript strand *)
Theorem C15_site_labels :
  site_type true PLUSs = FIVE /\ site_type false PLUSs = THREE /\
  site_type true MINUSs = THREE /\ site_type false MINUSs = FIVE /\
  (forall s, s <> PLUSs -> s <> MINUSs -> site_type true s = SPLICE /\ site_type false s = SPLICE).
Proof. exact l_site_labels. Qed.
Print Assumptions C15_site_labels.
