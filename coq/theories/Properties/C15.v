(* Properties/C15.v — interfeatures, introns, splice sites.  Statements only; every proof is `exact`.
   [interfeatures c fs] models FeatureDB.interfeatures over the features [fs] in the given order
   (create_introns calls it with the start-ordered level-1 exon children of each transcript);
   [gaps fs] are the consecutive pairs on one seqid with at least one base between them. *)
From GV Require Import Base.Prelude Base.PyStr Model.Bins Model.DB Model.Parser Model.Query Model.Import Model.Attrs Model.Order Model.Inter Model.Introns
  Proofs.C15Proofs Proofs.C15Introns.
From Coq Require Import Sorting.Permutation Sorting.Sorted.
Open Scope Z_scope.

(* exactly one feature per gap, in order, none for touching/overlapping pairs or across seqids; each spans
   previous.end+1 .. next.start-1, typed new_featuretype or inter_A_B, stranded like both neighbours or '.',
   attributes = merge_attributes of the neighbours (+ update_attributes), several ID values joined by '-',
   bin recomputed from the new coordinates *)
Theorem C15_inter_exact : forall c fs out, interfeatures c fs = Ok out -> Forall2 (gap_spec c) (gaps fs) out.
Proof. exact l_inter_exact. Qed.
Print Assumptions C15_inter_exact.

Theorem C15_gaps : forall a b l, gaps (a :: b :: l) =
  (if str_eqb (r_seqid a) (r_seqid b) && match r_end a, r_start b with Some e, Some s => e + 1 <=? s - 1 | _, _ => false end
   then [(a, b)] else []) ++ gaps (b :: l).
Proof. exact l_gaps_unfold. Qed.
Print Assumptions C15_gaps.

Theorem C15_count_le : forall c fs out, interfeatures c fs = Ok out -> (length out <= Nat.pred (length fs))%nat.
Proof. exact l_count_le. Qed.
Print Assumptions C15_count_le.

(* splice sites: the two-base sites [start, start+1] and [end-1, end] of each such intron, ID prefixed with the label *)
Theorem C15_splice_sites : forall left tstrand merge numeric exons sites,
  splice_side left tstrand merge numeric exons = Ok sites ->
  exists introns, interfeatures (mkICfg (Some (site_type left tstrand)) merge numeric []) exons = Ok introns /\
                  Forall2 (site_of left (site_type left tstrand)) introns sites.
Proof. exact l_splice_sites. Qed.
Print Assumptions C15_splice_sites.

(* five-/three-prime according to side and transcript strand *)
Theorem C15_site_labels :
  site_type true PLUSs = FIVE /\ site_type false PLUSs = THREE /\
  site_type true MINUSs = THREE /\ site_type false MINUSs = FIVE /\
  (forall s, s <> PLUSs -> s <> MINUSs -> site_type true s = SPLICE /\ site_type false s = SPLICE).
Proof. exact l_site_labels. Qed.
Print Assumptions C15_site_labels.

(* ---- create_introns / create_splice_sites over a database state [st] (Model/Introns.v) ----
   transcripts: the level-1 children of every feature of grandparent_featuretype (one visit per parent link), or every
   feature of parent_featuretype; exons of a transcript: its level-1 children of the exon type, ORDER BY start. *)

(* the exons handed to interfeatures are exactly the transcript's level-1 children of the exon type, each once, by
   ascending start *)
Theorem C15_exons_of_transcript : forall st e t,
  Permutation (exons_of st e t) (filter (fun r => str_eqb (r_ftype r) e) (children1 st (r_id t))) /\
  StronglySorted start_le (exons_of st e t).
Proof. exact l_exons_of. Qed.
Print Assumptions C15_exons_of_transcript.

(* "create_introns yields exactly these gaps between the start-ordered exons of each transcript": the output is the
   concatenation, transcript by transcript, of one feature per gap of that transcript's exons, each built as gap_spec says *)
Theorem C15_create_introns_exact : forall st v e c out, create_introns st v e c = Ok out ->
  exists outs, out = concat outs /\
    Forall2 (fun t o => Forall2 (gap_spec c) (gaps (exons_of st e t)) o) (transcripts st v) outs.
Proof. exact l_create_introns. Qed.
Print Assumptions C15_create_introns_exact.

(* N exons on one seqid, each separated from the next by at least one base: N - 1 introns *)
Theorem C15_introns_count : forall c fs out, separated fs -> interfeatures c fs = Ok out -> length out = Nat.pred (length fs).
Proof. exact l_introns_count. Qed.
Print Assumptions C15_introns_count.

(* create_splice_sites: for every transcript the left sites, then for every transcript the right sites, each list being
   splice_side of that transcript's exons with the transcript's own strand (C15_splice_sites, C15_site_labels) *)
Theorem C15_create_splice_sites_exact : forall st v e merge numeric out, create_splice_sites st v e merge numeric = Ok out ->
  exists lefts rights, out = concat lefts ++ concat rights /\
    Forall2 (fun t o => splice_side true (r_strand t) merge numeric (exons_of st e t) = Ok o) (transcripts st v) lefts /\
    Forall2 (fun t o => splice_side false (r_strand t) merge numeric (exons_of st e t) = Ok o) (transcripts st v) rights.
Proof. exact l_create_splice_sites. Qed.
Print Assumptions C15_create_splice_sites_exact.
