(* Properties/C19.v — existing databases are never clobbered; queries never write.  Statements
   only; every proof is `exact`.  PARTIAL: these theorems are about the model of Model/Store.v.
   That sqlite's executescript really fails before touching the file, and that no read path of
   interface.py issues a write, is runtime behaviour the model cannot exhibit: it is decided by
   the correspondence (file bytes, statement trace, content after reopen). *)
From GV Require Import Base.Prelude Base.PyStr Model.Bins Model.DB Model.Parser Model.Import Model.Machine Model.Store
  Proofs.C19Proofs.
Open Scope Z_scope.

(* without force an existing database makes create_db fail and nothing on the file system changes *)
Theorem C19_refuse : forall fs p old imp, fs_get p fs = Some old -> create_db_fs fs p false imp = (fs, Err EOther).
Proof. exact l_refuse. Qed.
Print Assumptions C19_refuse.

(* with force the path holds exactly what the importer makes of the new input ... *)
Theorem C19_force : forall fs p imp d, imp = Ok d ->
  snd (create_db_fs fs p true imp) = Ok tt /\ fs_get p (fst (create_db_fs fs p true imp)) = Some d.
Proof. exact l_force. Qed.
Print Assumptions C19_force.

(* ... whatever was there before: nothing of the old database survives *)
Theorem C19_force_independent : forall fs fs' p imp,
  fs_get p (fst (create_db_fs fs p true imp)) = fs_get p (fst (create_db_fs fs' p true imp))
  /\ snd (create_db_fs fs p true imp) = snd (create_db_fs fs' p true imp).
Proof. exact l_force_independent. Qed.
Print Assumptions C19_force_independent.

Theorem C19_other_paths : forall fs p q force imp, p <> q -> fs_get q (fst (create_db_fs fs p force imp)) = fs_get q fs.
Proof. exact l_other_paths. Qed.
Print Assumptions C19_other_paths.

Theorem C19_fresh_path : forall fs p force imp d, fs_get p fs = None -> imp = Ok d ->
  fs_get p (fst (create_db_fs fs p force imp)) = Some d.
Proof. exact l_fresh. Qed.
Print Assumptions C19_fresh_path.

(* read-style calls, in any number and order, leave the file and the .bak alone (merge() only moves
   the in-memory counters) ... *)
Theorem C19_reads_pure : forall rs s, m_disk (reads s rs) = m_disk s /\ m_bak (reads s rs) = m_bak s.
Proof. exact l_reads_pure. Qed.
Print Assumptions C19_reads_pure.

(* ... so that reopening afterwards observes the same features, relations and id counters *)
Theorem C19_reads_then_reopen : forall call kind rs s, fst (step call kind (reads s rs) OpReopen) = fst (step call kind s OpReopen).
Proof. exact l_reads_then_reopen. Qed.
Print Assumptions C19_reads_then_reopen.
