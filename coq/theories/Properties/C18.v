(* Properties/C18.v — length, sequence, BED12.  Statements only; every proof is `exact`. *)
From GV Require Import Base.Prelude Base.PyStr Model.Bins Model.DB Model.Parser Model.Bed Proofs.C18Proofs Gen.GenLib Gen.GenConst.
Open Scope Z_scope.

(* len(feature) = end - start + 1 — on the model and on the expression regenerated from Feature.__len__ *)
Theorem C18_len : forall r s e, r_start r = Some s -> r_end r = Some e -> feature_len r = Ok (e - s + 1).
Proof. exact l_len. Qed.
Print Assumptions C18_len.
Theorem C18_len_generated : forall f, gen_feature_len f = m_end f - m_start f + 1.
Proof. intros f. reflexivity. Qed.
Print Assumptions C18_len_generated.

(* sequence(): exactly bases start..end (1-based, inclusive) of the record ... *)
Theorem C18_sequence_bases : forall seq s e i, 1 <= s -> s <= e -> e <= Z.of_nat (length seq) -> (Z.of_nat i <= e - s) ->
  nth_error (slice seq s e) i = nth_error seq (Z.to_nat (s - 1) + i).
Proof. exact slice_nth. Qed.
Print Assumptions C18_sequence_bases.
(* ... so its length equals len(feature), on either strand *)
Theorem C18_sequence_length : forall seq s e strand use, 1 <= s -> s <= e -> e <= Z.of_nat (length seq) ->
  Z.of_nat (length (sequence seq s e strand use)) = e - s + 1.
Proof. exact l_sequence_length. Qed.
Print Assumptions C18_sequence_length.
(* reverse-complemented for minus-strand features unless use_strand=False *)
Theorem C18_sequence_plus : forall seq s e strand use, use = false \/ strand <> [45%N] -> sequence seq s e strand use = slice seq s e.
Proof. exact l_sequence_plus. Qed.
Print Assumptions C18_sequence_plus.
Theorem C18_sequence_minus : forall seq s e, sequence seq s e [45%N] true = revcomp (slice seq s e).
Proof. exact l_sequence_minus. Qed.
Print Assumptions C18_sequence_minus.
Theorem C18_revcomp_involutive : forall s, (forall c, In c s -> base c) -> revcomp (revcomp s) = s.
Proof. exact revcomp_involutive. Qed.
Print Assumptions C18_revcomp_involutive.

(* bed12: twelve fields, chromStart = start-1, chromEnd = end, one block per block feature with its length and its start
   relative to chromStart, thickStart/thickEnd from the first/last thick feature *)
Theorem C18_bed12_fields : forall feat blocks kids name nm color fs fe ts te,
  r_start feat = Some fs -> r_end feat = Some fe -> blocks <> [] ->
  forallb (fun x => match r_start x, r_end x with Some _, Some _ => true | _, _ => false end) blocks = true ->
  first_start blocks = Some fs -> last_end blocks = Some fe ->
  kids <> [] -> first_start kids = Some ts -> last_end kids = Some te ->
  name = Some (nm :: []) \/ (name = None /\ nm = [46%N]) ->
  bed12 feat blocks (ThickBy kids) name color =
  Ok (join TABs [r_seqid feat; zs (fs - 1); zs fe; nm; (if str_eqb (r_score feat) [46%N] then [48%N] else r_score feat);
                 r_strand feat; zs (ts - 1); zs te;
                 (match color with None => [48;44;48;44;48]%N | Some c => strip_spaces c end);
                 zs (Z.of_nat (length blocks));
                 comma_join (map (fun x => match r_start x, r_end x with Some s, Some e => e - s + 1 | _, _ => 0 end) blocks);
                 comma_join (map (fun x => match r_start x with Some s => s - 1 - (fs - 1) | None => 0 end) blocks)]).
Proof. exact l_bed12_fields. Qed.
Print Assumptions C18_bed12_fields.

(* first block starts at 0, last block ends at chromEnd *)
Theorem C18_block_geometry : forall (blocks : list row) fs fe b0 rest bl sl el,
  blocks = b0 :: rest -> r_start b0 = Some fs ->
  last blocks b0 = bl -> r_start bl = Some sl -> r_end bl = Some el -> el = fe ->
  (match r_start b0 with Some s => s - 1 - (fs - 1) | None => 0 end) = 0 /\
  (fs - 1) + (sl - 1 - (fs - 1)) + (el - sl + 1) = fe.
Proof. exact l_block_geometry. Qed.
Print Assumptions C18_block_geometry.

(* ValueError when the blocks do not span the feature *)
Theorem C18_bed12_span_error : forall feat blocks mode name color fs fe first last,
  r_start feat = Some fs -> r_end feat = Some fe -> blocks <> [] ->
  forallb (fun x => match r_start x, r_end x with Some _, Some _ => true | _, _ => false end) blocks = true ->
  first_start blocks = Some first -> last_end blocks = Some last -> (first <> fs \/ last <> fe) ->
  bed12 feat blocks mode name color = Err EValue.
Proof. exact l_bed12_span_error. Qed.
Print Assumptions C18_bed12_span_error.

Theorem C18_to_bed12_fields : forall feat children name nm fs fe,
  r_start feat = Some fs -> r_end feat = Some fe ->
  forallb (fun x => match r_start x, r_end x with Some _, Some _ => true | _, _ => false end) children = true ->
  name = Some (nm :: []) \/ (name = None /\ nm = [46%N]) ->
  to_bed12 feat children name =
  Ok (join TABs [r_seqid feat; zs (fs - 1); zs fe; nm; r_score feat; r_strand feat; zs fs; zs fe; [48;44;48;44;48]%N;
                 zs (Z.of_nat (length children));
                 comma_join (map (fun x => match r_start x, r_end x with Some s, Some e => e - s + 1 | _, _ => 0 end) children);
                 comma_join (map (fun x => match r_start x with Some s => s - fs | None => 0 end) children)] ++ [10%N]).
Proof. exact l_to_bed12_fields. Qed.
Print Assumptions C18_to_bed12_fields.
