(* Properties/C01.v — import fidelity.  Statements only; every proof is `exact`.
   [import_model] (Model/File.v) = dialect chosen for the file (peek window + vote, or the supplied
   one), second pass parsing every line with that dialect, rows handed back in input order carrying
   the database dialect.  [fits st a D] (Model/Grammar.v, boolean) says the file-level dialect D
   has the style's separators/format/quoting and that the line's keys are in the order D prints
   them in (the documented single-order limitation of keep_order). *)
From GV Require Import Base.Prelude Base.PyStr Base.Utf8 Base.WordTable Model.DB Model.Parser Model.Grammar Model.Dialect
  Model.File Gen.GenConst Proofs.GenConstEquiv Proofs.C07Parse Proofs.C07Proofs Proofs.C01Proofs.
Open Scope N_scope.

Definition isw_ok := (isword_ascii, isword_eq, isword_sp).

(* the second pass uses a different parser path (supplied dialect: always comma-splits, rstrip(";")):
   it returns the line's attributes for every fitting dialect *)
Theorem C01_with_dialect_agrees : forall st a D, wf_attrs st a = true -> fits st a D = true ->
  split_with D (render_attrs st a) = Ok a.
Proof. intros st a D H F. exact (l_parse_with_fits st a D H (fits_prop st a D F)). Qed.
Print Assumptions C01_with_dialect_agrees.

(* printing with the file's dialect and keep_order=True gives the column back *)
Theorem C01_print_with_file_dialect : forall st a D, wf_attrs st a = true -> fits st a D = true ->
  reconstruct gen_to_quote a D true false = render_attrs st a.
Proof. rewrite gen_to_quote_eq. intros st a D H F. exact (l_print_fits st a D H (fits_prop st a D F)). Qed.
Print Assumptions C01_print_with_file_dialect.

(* every line stored once, in input order, with its eight columns, coordinates, attributes (keys
   and decoded values in order) and extra columns: for every checklines value, supplied or voted
   dialect, keep_order / sort_attribute_values setting *)
Theorem C01_once_in_order : forall st cfg fs,
  (forall f, In f fs -> wf_feature st f = true /\ f_dialect f = canon_dialect st (f_attrs f)) ->
  (forall f, In f fs -> fits st (f_attrs f) (chosen st cfg fs) = true) ->
  import_model isword cfg (map (render_line st) fs)
  = Ok (chosen st cfg fs, map (fun f => with_dialect f (chosen st cfg fs) (c_keep_order cfg) (c_sort_values cfg)) fs).
Proof.
  intros st cfg fs Hall Hfits.
  exact (l_import_fidelity isword isword_ascii isword_eq isword_sp st cfg fs Hall (fun f Hf => fits_prop _ _ _ (Hfits f Hf))).
Qed.
Print Assumptions C01_once_in_order.

(* with keep_order=True the printed features are the input lines, byte for byte *)
Theorem C01_print_identity : forall st cfg fs,
  (forall f, In f fs -> wf_feature st f = true /\ f_dialect f = canon_dialect st (f_attrs f)) ->
  (forall f, In f fs -> fits st (f_attrs f) (chosen st cfg fs) = true) ->
  c_keep_order cfg = true -> c_sort_values cfg = false ->
  forall D stored, import_model isword cfg (map (render_line st) fs) = Ok (D, stored) ->
  printed gen_to_quote stored = map (render_line st) fs.
Proof.
  rewrite gen_to_quote_eq. intros st cfg fs Hall Hfits.
  exact (l_import_prints_back isword isword_ascii isword_eq isword_sp st cfg fs Hall (fun f Hf => fits_prop _ _ _ (Hfits f Hf))).
Qed.
Print Assumptions C01_print_identity.

(* re-importing the printed features gives the same database content *)
Theorem C01_reimport : forall st cfg fs,
  (forall f, In f fs -> wf_feature st f = true /\ f_dialect f = canon_dialect st (f_attrs f)) ->
  (forall f, In f fs -> fits st (f_attrs f) (chosen st cfg fs) = true) ->
  c_keep_order cfg = true -> c_sort_values cfg = false ->
  forall D stored, import_model isword cfg (map (render_line st) fs) = Ok (D, stored) ->
  import_model isword cfg (printed gen_to_quote stored) = Ok (D, stored).
Proof.
  rewrite gen_to_quote_eq. intros st cfg fs Hall Hfits.
  exact (l_reimport isword isword_ascii isword_eq isword_sp st cfg fs Hall (fun f Hf => fits_prop _ _ _ (Hfits f Hf))).
Qed.
Print Assumptions C01_reimport.

(* the dialect the file gets: the vote over the first checklines+1 lines as C07 reads them *)
Theorem C01_file_dialect : forall st cfg fs,
  (forall f, In f fs -> wf_feature st f = true /\ f_dialect f = canon_dialect st (f_attrs f)) ->
  file_dialect isword cfg (map (render_line st) fs) = Ok (chosen st cfg fs).
Proof. exact (file_dialect_rendered isword isword_ascii isword_eq isword_sp). Qed.
Print Assumptions C01_file_dialect.
