From GV Require Import Base.Prelude.
