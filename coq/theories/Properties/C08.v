(* Properties/C08.v — attribute values survive print/parse; parsing is total.  Statements
   only; every proof is `exact`.  The percent-quoting table is [gen_to_quote], regenerated from
   /repo/gffutils/parser.py on every run. *)
From GV Require Import Base.Prelude Base.PyStr Base.Utf8 Model.DB Model.Parser Model.Grammar Gen.GenConst
  Proofs.GenConstEquiv Proofs.C08Proofs Proofs.C08Round Proofs.C08Gtf Proofs.C07Proofs Proofs.C08Line Proofs.C08Whole.
Open Scope N_scope.

(* percent-encoding is inverted by unquote for EVERY string over all code points *)
Theorem C08_quote_unquote : forall s, unquote (quote gen_to_quote s) = s.
Proof. rewrite gen_to_quote_eq. exact l_quote_unquote. Qed.
Print Assumptions C08_quote_unquote.

(* encoded text never contains tab, newline, CR, ';', '=', ',' or '&': the printed attribute
   column cannot break the nine-column line nor the attribute structure *)
Theorem C08_quote_no_structural : forall s c, In c [TAB; 10; 13; SEMI; EQ; COMMA; 38] -> ~ In c (quote gen_to_quote s).
Proof. rewrite gen_to_quote_eq. exact l_quote_no_structural. Qed.
Print Assumptions C08_quote_no_structural.

(* print -> parse is the identity on mappings, for all 24 GFF3-style dialects (three field
   separators x trailing semicolon x '=' / ' ' x quoted x repeated keys) and ALL unicode values *)
Theorem C08_roundtrip_gff3 : forall D m, gff3_style D = true -> mapping_ok m = true ->
  split_with D (reconstruct gen_to_quote m D false false) = Ok m.
Proof. rewrite gen_to_quote_eq. exact l_roundtrip_gff3. Qed.
Print Assumptions C08_roundtrip_gff3.

(* ... and for all 12 standard GTF dialects (key, space, quoted value; three field separators x
   trailing semicolon x repeated keys): values free of semicolon, double quote, comma and control
   characters - spaces anywhere, '=', '%', unicode are fine *)
Theorem C08_roundtrip_gtf : forall D m, gtf_standard D = true -> gtf_mapping_ok m = true ->
  split_with D (reconstruct gen_to_quote m D false false) = Ok m.
Proof. rewrite gen_to_quote_eq. exact l_roundtrip_gtf. Qed.
Print Assumptions C08_roundtrip_gtf.

(* the printed Feature is ONE line of exactly nine tab-separated columns plus the extra columns, whatever
   unicode the attribute values hold, for every GFF3-style dialect, keep_order and sort_attribute_values
   setting (columns 1-8 and the extra columns themselves free of tab / LF / CR) *)
Theorem C08_single_line : forall f, gff3_style (f_dialect f) = true -> mapping_ok (f_attrs f) = true ->
  (forall col, In col ([f_seqid f; f_source f; f_ftype f; f_score f; f_strand f; f_frame f] ++ f_extra f) ->
     forall c, In c col -> ~ ctl c) ->
  count_char TAB (feature_str gen_to_quote f) = (8 + length (f_extra f))%nat /\
  forall c, In c (feature_str gen_to_quote f) -> c <> 10 /\ c <> 13.
Proof. rewrite gen_to_quote_eq. exact l_single_line. Qed.
Print Assumptions C08_single_line.

(* the WHOLE printed line parses back to the Feature it came from - the eight columns, '.' or integer coordinates of any
   size and sign, the attribute mapping and the extra columns - for every GFF3-style dialect with keep_order and
   sort_attribute_values off, whatever unicode the attribute values hold (columns 1-8 and the extra columns free of
   tab / LF / CR, which is all the printer asks of them) *)
Theorem C08_line_roundtrip : forall isw f, gff3_style (f_dialect f) = true -> mapping_ok (f_attrs f) = true ->
  f_keep_order f = false -> f_sort_values f = false ->
  (forall col, In col ([f_seqid f; f_source f; f_ftype f; f_score f; f_strand f; f_frame f] ++ f_extra f) ->
     forall c, In c col -> ~ ctl c) ->
  feature_from_line isw (feature_str gen_to_quote f) (Some (f_dialect f)) false = Ok f.
Proof. rewrite gen_to_quote_eq. exact l_line_roundtrip. Qed.
Print Assumptions C08_line_roundtrip.

(* totality of the supplied-dialect path: no string makes it raise (for a dialect whose
   separators are non-empty); the inference path [split_infer] is a total function whose only
   partial primitive is taking the head of a split() result: *)
Theorem C08_total_with : forall D s, wf_dialect D = true -> exists a, split_with D s = Ok a.
Proof. exact l_split_with_total. Qed.
Print Assumptions C08_total_with.

Theorem C08_split_never_empty : forall sep s, exists k rest, split sep s = k :: rest.
Proof. exact l_split_pieces_nonempty. Qed.
Print Assumptions C08_split_never_empty.
