(* Properties/C02.v — GFF3 hierarchy.  Statements only; every proof is `exact`.
   [import_gff] is the model of create_db's GFF3 importer (Model/Import.v), [relation] the
   model of FeatureDB.children/parents (Model/Query.v); [in_domain] = unique, non-empty ids
   (one ID value per line) free of tab/newline. *)
From GV Require Import Base.Prelude Base.PyStr Model.Bins Model.DB Model.Parser Model.Query Model.Import Model.Hier
  Proofs.C02Proofs Proofs.C02Hist.
From Coq Require Import Permutation.
Open Scope Z_scope.

Section C02.
  Variable call : nat -> row -> option str.
  Notation import feats := (import_gff call SError [] (SList [KAttr IDK]) feats empty_st).

  (* the import succeeds and stores every line once, in input order, under its ID *)
  Theorem C02_import_ok : forall feats, in_domain feats = true ->
    exists st, import feats = Ok st /\ s_rows st = map stored feats /\ NoDup (map r_id (s_rows st)).
  Proof.
    intros feats H. eexists. split; [exact (l_import call feats H)|]. split; [reflexivity|].
    exact (l_rows_ids_nodup call feats _ H (l_import call feats H)).
  Qed.

  (* level 1 = exactly the Parent links of the stored lines (dangling parents included: a row, never a feature) *)
  Theorem C02_level1 : forall feats st, in_domain feats = true -> import feats = Ok st ->
    forall p c, In (mkRel p c 1) (s_rels st) <-> exists f, In f feats /\ fid f = c /\ In p (parents_of f).
  Proof. exact (l_level1 call). Qed.

  (* level 2 = exactly the composition of two level-1 links starting at a stored feature *)
  Theorem C02_level2 : forall feats st, in_domain feats = true -> import feats = Ok st ->
    forall x z, In (mkRel x z 2) (s_rels st) <->
      (exists f, In f feats /\ fid f = x) /\ exists y, In (mkRel x y 1) (s_rels st) /\ In (mkRel y z 1) (s_rels st).
  Proof. exact (l_level2 call). Qed.

  (* nothing deeper than two levels is ever related *)
  Theorem C02_depth : forall feats st, in_domain feats = true -> import feats = Ok st ->
    forall x, In x (s_rels st) -> rel_level x = 1 \/ rel_level x = 2.
  Proof. exact (l_levels_only call). Qed.

  (* any order of the lines gives the same relation table *)
  Theorem C02_order_independent : forall feats feats' st st',
    in_domain feats = true -> in_domain feats' = true -> Permutation feats feats' ->
    import feats = Ok st -> import feats' = Ok st' -> forall x, In x (s_rels st) <-> In x (s_rels st').
  Proof. exact (l_order_independent call). Qed.

  (* x never its own relative: without self-parents and two-cycles in the input (the property quantifies over DAGs; the
     domain predicate itself does not exclude cycles, hence the two explicit hypotheses) no relation row relates a feature to
     itself at any level - so, by C02_children_level / C02_parents_level, x is never among children(x) or parents(x) *)
  Theorem C02_not_self : forall feats st, in_domain feats = true -> import feats = Ok st ->
    (forall f, In f feats -> ~ In (fid f) (parents_of f)) ->
    (forall f g, In f feats -> In g feats -> In (fid g) (parents_of f) -> ~ In (fid f) (parents_of g)) ->
    forall x l, ~ In (mkRel x x l) (s_rels st).
  Proof. exact (l_not_self call). Qed.
End C02.
Print Assumptions C02_not_self.
Print Assumptions C02_import_ok.
Print Assumptions C02_level1.
Print Assumptions C02_level2.
Print Assumptions C02_depth.
Print Assumptions C02_order_independent.

(* children()/parents() on ANY database: exactly the stored rows related at the requested level *)
Theorem C02_children_level : forall d x l r, In r (relation d Children x (Some l) FNone None false) <->
  In r (d_rows d) /\ In (mkRel x (r_id r) l) (d_rels d).
Proof. exact l_children_level. Qed.
Print Assumptions C02_children_level.

Theorem C02_parents_level : forall d y l r, In r (relation d Parents y (Some l) FNone None false) <->
  In r (d_rows d) /\ In (mkRel (r_id r) y l) (d_rels d).
Proof. exact l_parents_level. Qed.
Print Assumptions C02_parents_level.

Theorem C02_children_all : forall d x r, In r (relation d Children x None FNone None false) <->
  In r (d_rows d) /\ exists l, In (mkRel x (r_id r) l) (d_rels d).
Proof. exact l_children_all. Qed.
Print Assumptions C02_children_all.

(* parents() is the exact inverse of children() at every level (incl. level=None) *)
Theorem C02_parents_inverse : forall d level rx ry, In rx (d_rows d) -> In ry (d_rows d) ->
  (In ry (relation d Children (r_id rx) level FNone None false) <->
   In rx (relation d Parents (r_id ry) level FNone None false)).
Proof. exact l_parents_inverse. Qed.
Print Assumptions C02_parents_inverse.

(* each feature once; only stored features (no phantom for a dangling Parent value) *)
Theorem C02_once : forall d dir id level ft lim cw, NoDup (d_rows d) -> NoDup (relation d dir id level ft lim cw).
Proof. exact l_once. Qed.
Print Assumptions C02_once.

Theorem C02_featuretype_filter : forall d dir id level ft r, In r (relation d dir id level ft None false) <->
  In r (relation d dir id level FNone None false) /\ ft_query ft r = true.
Proof. exact l_ft_filter. Qed.
Print Assumptions C02_featuretype_filter.

(* "... in create_db and in update alike": the relations step is exact on EVERY stored state, also when level-2 rows
   of an earlier import are already in the table: what it adds at level 2 are exactly the compositions of two
   level-1 rows that start at a stored feature (so a great-grandchild is never recorded as a grandchild) *)
Theorem C02_relations_step_exact : forall st,
  (forall r, In r (s_rows st) -> id_clean (r_id r) = true) ->
  (forall x, In x (s_rels st) -> id_clean (rel_child x) = true) ->
  exists st', update_relations_gff st = Ok st' /\ s_rows st' = s_rows st /\ s_dups st' = s_dups st /\ s_auto st' = s_auto st /\
    forall x, In x (s_rels st') <->
      In x (s_rels st) \/
      (rel_level x = 2 /\ (exists r, In r (s_rows st) /\ r_id r = rel_parent x) /\
       exists y, In (mkRel (rel_parent x) y 1) (s_rels st) /\ In (mkRel y (rel_child x) 1) (s_rels st)).
Proof. exact l_relations_step. Qed.
Print Assumptions C02_relations_step_exact.

(* ... and over every history of imports into one database - create_db, then any number of update() calls, each with
   its own strategy, ANY of the five ('replace' removes, besides the replaced version's level-1 parent links, the level-2
   rows that end at it or run through it - since the repair of F23), ids and Parent values free of TAB/CR/LF: the level-2
   ([imports], Model/Hier.v: it returns an error - so the theorem says nothing - as soon as one batch is empty, an import
   fails, or a stored id / Parent value contains TAB, CR or LF), the level-2
   rows are exactly the compositions of two level-1 rows starting at a stored feature (closed2: nothing deeper or stale is
   ever recorded as level 2; complete2: no grandchild of a stored feature is missing - also when the grandparent arrives in
   a later update than its grandchildren), and no other level occurs *)
Theorem C02_history_closed : forall call force spec bs st',
  imports call force spec bs empty_st = Ok st' -> closed2 st' /\ complete2 st' /\ levels12 st'.
Proof. exact l_history_from_empty. Qed.
Print Assumptions C02_history_closed.
