"""C10 — histories of update / delete / add_relation / reopen on a file database, with backups and failing sources."""
import gc
import itertools
import os
import shutil
import sqlite3
import tempfile
import coqlit as L
from props import imp

COQ_CORR = "Corr.C10"
GEN_DEPS = ["GenBins.v"]
SHARD = 60
RULE = ("a file database created from a small GFF3 hierarchy (gene, mRNA, exons with and without ID), then every sequence "
        "of up to 3 (thorough: 4) operations over an alphabet of 16: update with three feature batches (new sub-tree with an "
        "id-less exon; a duplicate key plus an id-less exon; id-less exons incl. a dangling Parent) under create_unique / "
        "merge / replace / error, update with no features, updates whose feature source raises after k items (inside and "
        "beyond the dialect-inspection window), delete by id / list / Feature, add_relation (new, duplicate, missing "
        "feature), close + reopen; plus random histories up to length 8 with generated batches, strategies, checklines and "
        "failure positions; add_relation also with a child_func that re-types the child.  After every step: all four tables of the file read through a fresh connection, the open object's "
        "in-memory counters, the content of the .bak file, the outcome class, and - through the same long-lived FeatureDB object - "
        "db[id] for a pool of present and absent ids, count_features_of_type per type, and the ids iterated.  non-trivial = history with >= 2 steps that "
        "change the file; distinct by the sequence of operation kinds")
ASSUMPTIONS = ["GFF3- and GTF-dialect databases (update routes by the stored dialect; GTF updates re-derive transcripts and genes over the whole table)",
               "the exception raised by a failing feature source is a RuntimeError (class Other)"]
STRATS = ["create_unique", "merge", "replace", "error", "warning"]


def init_feats(named=False):
    if named:
        # every line has an ID: the database starts with no autoincrement counter at all
        return [imp.mkfeat(type_="gene", s=1, e=100, attrs=[["ID", ["g1"]], ["Name", ["n1"]]]),
                imp.mkfeat(type_="mRNA", s=1, e=100, attrs=[["ID", ["m1"]], ["Parent", ["g1"]]]),
                imp.mkfeat(type_="exon", s=1, e=20, attrs=[["ID", ["e1"]], ["Parent", ["m1"]]])]
    return [imp.mkfeat(type_="gene", s=1, e=100, attrs=[["ID", ["g1"]], ["Name", ["n1"]]]),
            imp.mkfeat(type_="mRNA", s=1, e=100, attrs=[["ID", ["m1"]], ["Parent", ["g1"]]]),
            imp.mkfeat(type_="exon", s=1, e=20, attrs=[["ID", ["e1"]], ["Parent", ["m1"]]]),
            imp.mkfeat(type_="exon", s=50, e=100, attrs=[["Parent", ["m1"]]])]


def batch(n):
    if n == 1:
        return [imp.mkfeat(type_="gene", s=200, e=300, attrs=[["ID", ["g2"]]]),
                imp.mkfeat(type_="mRNA", s=200, e=300, attrs=[["ID", ["m2"]], ["Parent", ["g2"]]]),
                imp.mkfeat(type_="exon", s=200, e=250, attrs=[["Parent", ["m2"]]])]
    if n == 2:
        return [imp.mkfeat(type_="gene", s=1, e=100, attrs=[["ID", ["g1"]], ["Name", ["n2"]], ["Note", ["x"]]]),
                imp.mkfeat(type_="exon", s=30, e=40, attrs=[["Parent", ["m1"]]])]
    if n == 3:
        return [imp.mkfeat(type_="exon", s=60, e=70, attrs=[["Parent", ["m1"]]]),
                imp.mkfeat(type_="exon", s=80, e=90, attrs=[["Parent", ["m9"]]])]
    return []


def upd(n, strategy="create_unique", checklines=10, fail_at=None, backup=True):
    return {"op": "update", "feats": batch(n), "strategy": strategy, "checklines": checklines, "fail_at": fail_at,
            "backup": backup}


ALPHA = [
    upd(1), upd(2, "merge"), upd(2, "replace"), upd(2, "error"), upd(3), upd(0),
    upd(1, checklines=0, fail_at=2), upd(3, checklines=10, fail_at=1), dict(upd(1), reads=True),
    {"op": "delete", "ids": ["m1"], "form": "str", "backup": True},
    {"op": "delete", "ids": ["g1", "exon_1"], "form": "list", "backup": True},
    {"op": "addrel", "p": "g1", "c": "e1", "l": 2, "retype": False},
    {"op": "addrel", "p": "m1", "c": "e1", "l": 3, "retype": True},
    {"op": "addrel", "p": "m1", "c": "e1", "l": 1, "retype": True},      # the relation exists from the start: refused, nothing may stick
    {"op": "reopen"},
    # a hand-made level-2 row that no Parent chain explains (e1 over m1): replacing m1's parent later leaves it alone
    {"op": "addrel", "p": "e1", "c": "m1", "l": 2, "retype": False},
]


def gtf_exon(t, g, s, e, strand="+", type_="exon"):
    return imp.mkfeat(seqid="chr2", type_=type_, s=s, e=e, strand=strand, attrs=[["gene_id", [g]], ["transcript_id", [t]]])


def gtf_init():
    return [gtf_exon("T1", "G1", 100, 150), gtf_exon("T1", "G1", 200, 260), gtf_exon("T2", "G1", 120, 180),
            gtf_exon("T1", "G1", 110, 140, type_="CDS")]


def gtf_batch(n):
    if n == 1:
        return [gtf_exon("T1", "G1", 300, 350), gtf_exon("T3", "G1", 400, 450)]        # extends T1/G1, adds T3
    if n == 2:
        return [gtf_exon("T9", "G9", 1000, 1100, strand="-")]                         # a new gene
    if n == 3:
        return [gtf_exon("T2", "G1", 120, 180), gtf_exon("T2", "G1", 10, 50)]         # a repeated exon line + an earlier exon
    return []


def gtf_upd(n, strategy="create_unique", checklines=10, fail_at=None, backup=True):
    return {"op": "update", "feats": gtf_batch(n), "strategy": strategy, "checklines": checklines, "fail_at": fail_at,
            "backup": backup}


GTF_ALPHA = [
    gtf_upd(1), dict(gtf_upd(2), reads=True), gtf_upd(3, "merge"), gtf_upd(1, "merge"), gtf_upd(0), gtf_upd(1, checklines=0, fail_at=1),
    {"op": "delete", "ids": ["T1"], "form": "str", "backup": True},
    {"op": "delete", "ids": ["G1", "exon_1"], "form": "list", "backup": False},
    {"op": "addrel", "p": "G1", "c": "exon_2", "l": 3, "retype": False},
    {"op": "reopen"},
]


def gen_feat(rng):
    key = rng.choice(["g1", "m1", "e1", "g2", "m2", "x1", "exon_1", "exon_2", None, None, None])
    attrs = []
    if key is not None:
        attrs.append(["ID", [key]])
    if rng.random() < 0.7:
        attrs.append(["Parent", sorted(set(rng.choice(["g1", "m1", "g2", "m2", "m9"]) for _ in range(rng.choice([1, 1, 2]))))])
    if rng.random() < 0.3:
        attrs.append(["Note", [rng.choice(["x", "y", "é"])]])
    s = rng.choice([1, 20, 131000, 400])
    return imp.mkfeat(type_=rng.choice(["gene", "mRNA", "exon", "exon", "CDS"]), s=s, e=s + rng.choice([5, 99]),
                      strand=rng.choice(["+", "+", "-"]), attrs=attrs)


def gen_op(rng):
    r = rng.random()
    if r < 0.5:
        feats = [gen_feat(rng) for _ in range(rng.choice([0, 1, 2, 3, 5]))]
        fail = None
        if rng.random() < 0.3:
            fail = rng.randrange(0, len(feats) + 1)
        return {"op": "update", "feats": feats, "strategy": rng.choice(STRATS), "checklines": rng.choice([0, 1, 10]),
                "fail_at": fail, "backup": rng.random() < 0.7, "reads": rng.random() < 0.3}
    if r < 0.7:
        ids = [rng.choice(["g1", "m1", "e1", "g2", "m2", "exon_1", "exon_2", "gene_1", "nope"]) for _ in range(rng.choice([1, 1, 2]))]
        return {"op": "delete", "ids": ids, "form": rng.choice(["str", "list", "feature"]) if len(ids) == 1 else "list",
                "backup": rng.random() < 0.7}
    if r < 0.85:
        return {"op": "addrel", "p": rng.choice(["g1", "m1", "g2", "nope"]), "c": rng.choice(["e1", "m1", "exon_1", "m2"]),
                "l": rng.choice([1, 2, 3]), "retype": rng.random() < 0.4}
    return {"op": "reopen"}


def gen_cases(rng, tier):
    cases = []
    depth = 3 if tier == "quick" else 4
    for n in range(1, depth + 1):
        for seq in itertools.product(range(len(ALPHA)), repeat=n):
            if n == depth and tier == "quick" and (sum(seq) + seq[0]) % 3:
                continue
            if n == depth and tier != "quick" and (sum(seq) + seq[0] + seq[-1]) % 7:
                continue                      # every seventh depth-4 history (16 operations): keeps the thorough tier near 15 minutes on an idle machine
            cases.append({"ops": [ALPHA[i] for i in seq]})
    nr = 500 if tier == "quick" else 5000
    for _ in range(nr):
        cases.append({"ops": [gen_op(rng) for _ in range(rng.choice([2, 3, 4, 6, 8]))]})
    # databases that start without any autoincrement counter: the counters first appear during update()
    for n in range(1, 3 if tier == "quick" else 4):
        for seq in itertools.product([0, 1, 2, 4, 8, 9, 14], repeat=n):
            cases.append({"init": "named", "ops": [ALPHA[i] for i in seq]})
    for _ in range(nr // 4):
        cases.append({"init": "named", "ops": [gen_op(rng) for _ in range(rng.choice([2, 3, 4, 6]))]})
    # GTF-dialect databases: update() routes to the GTF importer, which re-derives transcripts and genes
    gdepth = 2 if tier == "quick" else 3
    for n in range(1, gdepth + 1):
        for seq in itertools.product(range(len(GTF_ALPHA)), repeat=n):
            cases.append({"kind": "gtf", "ops": [GTF_ALPHA[i] for i in seq]})
    for _ in range(150 if tier == "quick" else 2000):
        cases.append({"kind": "gtf", "ops": [rng.choice(GTF_ALPHA) for _ in range(rng.choice([3, 4, 6]))]})
    return cases


def valid_case(c):
    try:
        return all(o["op"] in ("update", "delete", "addrel", "reopen") for o in c["ops"])
    except Exception:
        return False


def shrinks(c):
    ops = c["ops"]
    keep = {k: v for k, v in c.items() if k in ("init", "kind")}
    for i in range(len(ops)):
        yield dict(keep, ops=ops[:i] + ops[i + 1:])
    for i, o in enumerate(ops):
        if o["op"] == "update":
            fs = o["feats"]
            for j in range(len(fs)):
                o2 = dict(o, feats=fs[:j] + fs[j + 1:])
                if o2["fail_at"] is not None and o2["fail_at"] > len(o2["feats"]):
                    o2["fail_at"] = len(o2["feats"])
                yield dict(keep, ops=ops[:i] + [o2] + ops[i + 1:])
            if o["fail_at"] is not None:
                yield dict(keep, ops=ops[:i] + [dict(o, fail_at=None)] + ops[i + 1:])
            if o["backup"]:
                yield dict(keep, ops=ops[:i] + [dict(o, backup=False)] + ops[i + 1:])


class SourceFailure(RuntimeError):
    pass


def failing_source(objs, k):
    for i, o in enumerate(objs):
        if i == k:
            raise SourceFailure("feature source failed after %d items" % k)
        yield o
    if k >= len(objs):
        raise SourceFailure("feature source failed after %d items" % k)


def reading_source(db, objs):
    """a lazy source that queries the database it is being imported into (as db.update(db.create_introns()) does)"""
    for o in objs:
        for i in POOL[:8]:
            list(db.children(i))
            list(db.parents(i, level=1))
        yield o


def dump_file(path):
    conn = sqlite3.connect(path)
    try:
        t = imp.dump_tables(conn)
    finally:
        conn.close()
    if not imp.tables_ok(t):
        raise ValueError("tables of unexpected shape")
    return t


POOL = ["g1", "m1", "e1", "exon_1", "exon_2", "g2", "m2", "x1", "nope", "G1", "T1", "T2", "T3", "G9", "T9", "CDS_1"]
TYPES = [None, "gene", "mRNA", "exon", "CDS", "retyped", "transcript"]


def feature_row(f):
    return {"id": f.id, "seqid": f.seqid, "source": f.source, "type": f.featuretype, "s": f.start, "e": f.end, "score": f.score,
            "strand": f.strand, "frame": f.frame, "attrs": [[k, list(v)] for k, v in f.attributes._d.items()],
            "extra": list(f.extra), "bin": f.bin}


def api_view(db):
    """what the long-lived FeatureDB object itself reports: look-ups, counts, iteration"""
    import gffutils
    looks = []
    for i in POOL:
        try:
            looks.append([i, ["ok", feature_row(db[i])]])
        except gffutils.FeatureNotFoundError:
            looks.append([i, ["err", "NotFound"]])
        except Exception as ex:
            looks.append([i, ["err", L.err_class(ex)]])
    counts = []
    for t in TYPES:
        try:
            counts.append([t, int(db.count_features_of_type(t))])
        except Exception:
            counts.append([t, -1])
    try:
        ids = [f.id for f in db.all_features()]
    except Exception:
        ids = ["<error>"]
    rel = []
    for i in POOL:
        try:
            rel.append([i, sorted(f.id for f in db.children(i)), sorted(f.id for f in db.parents(i))])
        except Exception:
            rel.append([i, ["<error>"], ["<error>"]])
    return {"lookups": looks, "counts": counts, "ids": ids, "rel": rel}


def run_impl(c):
    import gffutils
    import warnings
    warnings.simplefilter("ignore")
    d = tempfile.mkdtemp(prefix="c10", dir="/dev/shm" if os.path.isdir("/dev/shm") else None)
    out = {"steps": []}
    db = None
    try:
        dbfn = os.path.join(d, "h.db")
        gtf = c.get("kind") == "gtf"
        dialect = None
        if gtf:
            from gffutils import constants
            dialect = dict(constants.dialect)
            dialect.update({"fmt": "gtf", "keyval separator": " ", "quoted GFF2 values": True, "field separator": "; ",
                            "trailing semicolon": True})
        try:
            if gtf:
                db = gffutils.create_db([imp.to_feature(x, dialect) for x in gtf_init()], dbfn, dialect=dialect,
                                        merge_strategy="create_unique", verbose=False)
            else:
                db = gffutils.create_db([imp.to_feature(x) for x in init_feats(c.get("init") == "named")], dbfn, merge_strategy="create_unique",
                                        verbose=False)
            out["created"] = ["ok", dump_file(dbfn)]
        except Exception as ex:
            out["created"] = ["err", L.err_class(ex)]
            return out
        for o in c["ops"]:
            res = ["ok", None]
            try:
                if o["op"] == "update":
                    objs = [imp.to_feature(x, dialect) for x in o["feats"]]
                    data = objs if o["fail_at"] is None or o["fail_at"] > len(objs) else failing_source(objs, o["fail_at"])
                    if o.get("reads"):
                        data = reading_source(db, data)
                    # 'error' is the default strategy: rely on the default, so that nothing an earlier call was given can
                    # linger as a default of this one
                    kw = {} if o["strategy"] == "error" else {"merge_strategy": o["strategy"]}
                    db.update(data, make_backup=o["backup"], checklines=o["checklines"], verbose=False, **kw)
                elif o["op"] == "delete":
                    if o["form"] == "str":
                        arg = o["ids"][0]
                    elif o["form"] == "feature":
                        try:
                            arg = db[o["ids"][0]]
                        except gffutils.FeatureNotFoundError:
                            arg = o["ids"][0]
                    else:
                        arg = list(o["ids"])
                    db.delete(arg, make_backup=o["backup"])
                elif o["op"] == "addrel":
                    if o.get("retype"):
                        def child_func(parent, child):
                            child.featuretype = "retyped"
                            return child
                        db.add_relation(o["p"], o["c"], o["l"], child_func=child_func)
                    else:
                        db.add_relation(o["p"], o["c"], o["l"])
                elif o["op"] == "reopen":
                    db.conn.close()
                    db = gffutils.FeatureDB(dbfn)
            except Exception as ex:
                res = ["err", L.err_class(ex)]      # (no rollback here: a caller who catches the error just carries on)
                del ex
            gc.collect()
            bak = dump_file(dbfn + ".bak") if os.path.exists(dbfn + ".bak") else None
            out["steps"].append({"tables": dump_file(dbfn), "mem": sorted([k, int(v)] for k, v in dict(db._autoincrements).items()),
                                 "bak": bak, "out": res, "api": api_view(db)})
    finally:
        try:
            if db is not None:
                db.conn.close()
        except Exception:
            pass
        shutil.rmtree(d, ignore_errors=True)
    return out


def coq_op(o, gtf=False):
    if o["op"] == "update":
        rows = L.lst([imp.coq_row(x) for x in o["feats"]], "row")
        fail = "(@None nat)" if o["fail_at"] is None else "(Some %d%%nat)" % o["fail_at"]
        return "(OpUpdate %s %s %s %d%%nat %s %s)" % (rows, imp.STRAT[o["strategy"]],
                                                      "default_gtf_spec" if gtf else "(SList [KAttr IDK])", o["checklines"], fail,
                                                      L.b(o["backup"]))
    if o["op"] == "delete":
        return "(OpDelete %s %s)" % (L.ss(o["ids"]), L.b(o["backup"]))
    if o["op"] == "addrel":
        return "(OpAddRel %s %s %s %s)" % (L.s(o["p"]), L.s(o["c"]), L.z(o["l"]), L.b(o.get("retype", False)))
    return "OpReopen"


def coq_step(s):
    out = "(Ok tt)" if s["out"][0] == "ok" else "(Err %s)" % L.ERR[s["out"][1]]
    mem = L.lst(["(%s, %s)" % (L.s(k), L.z(v)) for k, v in s["mem"]], "(str * Z)")
    api = s["api"]
    looks = L.lst(["(%s, %s)" % (L.s(i), L.res(r, lambda d: imp.coq_row(d, d["id"], d["bin"]))) for i, r in api["lookups"]],
                  "(str * result row)")
    counts = L.lst(["(%s, %s)" % (L.opt(t, L.s, "str"), L.z(n)) for t, n in api["counts"]], "(option str * Z)")
    rel = L.lst(["(%s, (%s, %s))" % (L.s(i), L.ss(ch), L.ss(pa)) for i, ch, pa in api["rel"]], "(str * (list str * list str))")
    return "(mkStepObs %s %s %s %s %s %s %s %s)" % (imp.coq_tables(s["tables"]), mem, L.opt(s["bak"], imp.coq_tables, "tables"), out,
                                                   looks, counts, L.ss(api["ids"]), rel)


def coq_case(c, o):
    gtf = c.get("kind") == "gtf"
    init = L.lst([imp.coq_row(x) for x in (gtf_init() if gtf else init_feats(c.get("init") == "named"))], "row")
    return "CHist %s %s %s %s %s" % ("KGtf" if gtf else "KGff", init, L.lst([coq_op(x, gtf) for x in c["ops"]], "op"),
                                     imp.res_tables(o["created"]), L.lst([coq_step(s) for s in o.get("steps", [])], "stepobs"))


def labels(c, o):
    yield "dialect=" + c.get("kind", "gff3")
    yield "len=%d" % len(c["ops"])
    for x in c["ops"]:
        if x["op"] == "update":
            yield "update/%s%s" % (x["strategy"], "" if x["fail_at"] is None else "/failing")
        else:
            yield x["op"]
    for s in o.get("steps", []):
        yield "out=" + (s["out"][0] if s["out"][0] == "ok" else s["out"][1])


def nontrivial_key(c, o):
    steps = o.get("steps", [])
    changed = 0
    prev = o["created"][1] if o["created"][0] == "ok" else None
    for s in steps:
        if s["tables"] != prev:
            changed += 1
        prev = s["tables"]
    if changed < 2:
        return None
    return (c.get("kind", "gff3"),) + tuple((x["op"], x.get("strategy"), x.get("fail_at") is not None) for x in c["ops"])


def explain(c, o):
    return ("after some step of the history the database file, the in-memory id counters, the .bak file or the outcome "
            "differ from the reference machine (Model/Machine.v)")
