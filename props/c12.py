"""C12 — genomic binning: correspondence plugin."""
import coqlit as L

COQ_CORR = "Corr.C12"
GEN_DEPS = ["GenBins.v"]
SHARD = 2500
RULE = ("exhaustive grid of (start,end) pairs over coordinates m*2^(17+3j)+d (j=0..4, several m, d in -2..2), "
        "around 0 and 2^29, both formats, one=True/False, plus seeded random pairs; Feature.bin and "
        "_bin_from_dict on a sub-grid incl. '.' coordinates; the bin of Features the library makes itself (interfeatures "
        "gap, merge union, splice sites) with boundaries on the same grid.  non-trivial/distinct = distinct "
        "(fmt, one, result-kind, level of the returned bin or number of runs in the returned set)")
EXHAUSTIVE = {"quick": False, "thorough": False}
ASSUMPTIONS = ["Python >> on ints is floor division by a power of two (Z.shiftr)",
               "sets are compared as sorted maximal runs of integers"]


def coords(tier):
    out = set()
    for j in range(5):
        size = 1 << (17 + 3 * j)
        nb = 4096 >> (3 * j)          # bins at this level; nb*size = 2^29
        ms = {0, 1, 7, 8, nb - 1, nb} if tier == "quick" else {0, 1, 2, 3, 7, 8, 9, 63, 64, 65, 511, 512, nb // 2, nb - 2, nb - 1, nb}
        for m in sorted(x for x in ms if 0 <= x <= nb):
            for d in range(-2, 3):
                out.add(m * size + d)
    for d in range(-2, 3):
        out.add(d)
        out.add((1 << 29) + d)
    out.add(-1000)
    out.add(1 << 31)
    return sorted(out)


def gen_cases(rng, tier):
    cs = coords(tier)
    cases = []
    for i, s in enumerate(cs):
        for e in cs:
            if tier == "quick" and e < s and (i % 3):
                continue      # quick: all s<=e pairs, a third of the reversed ones
            for fmt in ("gff", "bed"):
                for one in (True, False):
                    cases.append({"k": "bins", "fmt": fmt, "s": s, "e": e, "one": one})
    n_rand = 200000 if tier == "thorough" else 4000
    for _ in range(n_rand):
        hi = rng.choice([1 << 18, 1 << 21, 1 << 24, 1 << 27, 1 << 29, (1 << 29) + 1000])
        s = rng.randrange(-3, hi)
        e = s + rng.choice([0, 1, rng.randrange(0, 1 << rng.randrange(1, 30))])
        cases.append({"k": "bins", "fmt": rng.choice(["gff", "bed"]), "s": s, "e": e, "one": rng.random() < 0.5})
    sub = cs[:: 3 if tier == "thorough" else 7]
    for s in sub + [None]:
        for e in sub + [None]:
            cases.append({"k": "feat", "s": s, "e": e})
            cases.append({"k": "dict", "s": s, "e": e})
            if s is not None and e is not None:
                # coordinates edited after construction: the bin written to the database (astuple) follows them
                cases.append({"k": "store", "s0": rng.choice(sub), "e0": rng.choice(sub), "s": s, "e": e})
    # Features the library makes itself: the gap between two neighbours (interfeatures) and the union of two overlapping
    # ones (merge) - their .bin against bins(start, end) of the coordinates they come out with
    pos = [x for x in sub if 10 <= x < (1 << 29) - 10]
    for x in pos:
        for y in pos:
            if y - x >= 2:
                cases.append({"k": "made", "how": "inter", "a": [max(1, x - 7), x], "b": [y, y + 9]})
            if y - x >= 3:
                cases.append({"k": "made", "how": "splice_left", "a": [max(1, x - 7), x], "b": [y, y + 9]})
                cases.append({"k": "made", "how": "splice_right", "a": [max(1, x - 7), x], "b": [y, y + 9]})
            if y >= x:
                cases.append({"k": "made", "how": "merge", "a": [max(1, x - 3), max(x, y - 5)], "b": [max(x, y - 5), y]})
                # the same union grown to the LEFT: the later feature first, criteria that accept an overlap on either side
                cases.append({"k": "made", "how": "merge_left", "a": [max(1, x - 3), max(x, y - 5)], "b": [max(x, y - 5), y]})
    return cases


def valid_case(c):
    if c.get("k") == "bins":
        return c.get("fmt") in ("gff", "bed") and isinstance(c.get("s"), int) and isinstance(c.get("e"), int)
    if c.get("k") == "store":
        return all(isinstance(c.get(x), int) for x in ("s0", "e0", "s", "e"))
    if c.get("k") == "made":
        try:
            return c.get("how") in ("inter", "merge", "merge_left", "splice_left", "splice_right") and len(c["a"]) == 2 and len(c["b"]) == 2 \
                and all(isinstance(v, int) and v >= 1 for v in c["a"] + c["b"]) \
                and c["a"][0] <= c["a"][1] and c["b"][0] <= c["b"][1] and c["a"][0] <= c["b"][0] \
                and (c["b"][0] - c["a"][1] >= {"inter": 2, "splice_left": 3, "splice_right": 3}[c["how"]] if c["how"] not in ("merge", "merge_left")
                     else c["b"][0] <= c["a"][1] + 1)
        except Exception:
            return False
    return c.get("k") in ("feat", "dict")


def runs(ints):
    xs = sorted(ints)
    out = []
    for x in xs:
        if out and x <= out[-1][1] + 1:
            out[-1][1] = max(out[-1][1], x)
        else:
            out.append([x, x])
    return out


_DB = {}


def _any_db():
    import gffutils
    if "db" not in _DB:
        _DB["db"] = gffutils.create_db("chr1\tsrc\tgene\t1\t2\t.\t+\t.\tID=g\n", ":memory:", from_string=True)
    return _DB["db"]


def run_impl(case):
    from gffutils import bins as B
    from gffutils.feature import Feature
    from gffutils import helpers
    if case["k"] == "bins":
        try:
            r = B.bins(case["s"], case["e"], fmt=case["fmt"], one=case["one"])
        except Exception as ex:
            return {"t": "err", "cls": L.err_class(ex)}
        if isinstance(r, (set, frozenset)):
            return {"t": "set", "runs": runs(r)}
        if isinstance(r, int) and not isinstance(r, bool):
            return {"t": "int", "v": r}
        return {"t": "err", "cls": "Other"}
    if case["k"] == "made":
        try:
            db = _any_db()
            fa = Feature(seqid="chr1", featuretype="exon", start=case["a"][0], end=case["a"][1], strand="+", id="a")
            fb = Feature(seqid="chr1", featuretype="exon", start=case["b"][0], end=case["b"][1], strand="+", id="b")
            if case["how"] == "inter":
                out = list(db.interfeatures([fa, fb]))
            elif case["how"].startswith("splice"):
                import gffutils
                hi = case["b"][1] + 10
                text = ("chr1\ts\tgene\t1\t%d\t.\t+\t.\tID=g\nchr1\ts\tmRNA\t1\t%d\t.\t+\t.\tID=t;Parent=g\n" % (hi, hi)
                        + "chr1\ts\texon\t%d\t%d\t.\t+\t.\tID=a;Parent=t\n" % tuple(case["a"])
                        + "chr1\ts\texon\t%d\t%d\t.\t+\t.\tID=b;Parent=t\n" % tuple(case["b"]))
                sites = list(gffutils.create_db(text, ":memory:", from_string=True).create_splice_sites())
                out = sites[:1] if case["how"] == "splice_left" else sites[1:]
            elif case["how"] == "merge_left":
                from gffutils import merge_criteria as mc
                out = [f for f in db.merge([fb, fa], merge_criteria=(mc.seqid, mc.overlap_any_inclusive, mc.strand, mc.feature_type))
                       if f.id not in ("a", "b")]
            else:
                out = [f for f in db.merge([fa, fb]) if f.id not in ("a", "b")]
            if len(out) != 1:
                return {"t": "err", "cls": "Other"}
            f = out[0]
            return {"t": "int" if isinstance(f.bin, int) else "none", "v": f.bin, "s": f.start, "e": f.end, "stored": f.astuple()[-1]}
        except Exception as ex:
            return {"t": "err", "cls": L.err_class(ex)}
    conv = lambda v: "." if v is None else v
    try:
        if case["k"] == "store":
            f = Feature(start=case["s0"], end=case["e0"])
            f.start, f.end = case["s"], case["e"]
            r = f.astuple()[-1]
        elif case["k"] == "feat":
            f = Feature(start=conv(case["s"]), end=conv(case["e"]))
            r1 = f.bin
            r2 = f.astuple()[-1]
            if r1 != r2:
                return {"t": "err", "cls": "Other"}
            r = r1
        else:
            r = helpers._bin_from_dict({"start": str(conv(case["s"])), "end": str(conv(case["e"]))})
    except Exception as ex:
        return {"t": "err", "cls": L.err_class(ex)}
    if r is None:
        return {"t": "none"}
    if isinstance(r, int):
        return {"t": "int", "v": r}
    return {"t": "err", "cls": "Other"}


def coq_bres(o):
    if o["t"] == "int":
        return "(RInt %s)" % L.z(o["v"])
    if o["t"] == "set":
        return "(RSet %s)" % L.lst(["(%s,%s)" % (L.z(a), L.z(b)) for a, b in o["runs"]], "(Z*Z)")
    return "RErr"


def coq_case(c, o):
    if c["k"] == "bins":
        return "CBins %s %s %s %s %s" % ("Gff" if c["fmt"] == "gff" else "Bed", L.z(c["s"]), L.z(c["e"]),
                                         L.b(c["one"]), coq_bres(o))
    impl = "(Some %s)" % L.z(o["v"]) if o["t"] == "int" else ("None" if o["t"] == "none" else "(Some (-99))")
    if c["k"] == "made":
        if "s" not in o:
            return "CFeat None None (Some (-98))"
        return "CFeat %s %s %s" % (L.opt(o["s"], L.z), L.opt(o["e"], L.z), impl)
    ctor = {"feat": "CFeat", "dict": "CDict", "store": "CDict"}[c["k"]]
    return "%s %s %s %s" % (ctor, L.opt(c["s"], L.z), L.opt(c["e"], L.z), impl)


def level_of(b):
    for lvl, off in enumerate([4681, 585, 73, 9, 1]):
        if b >= off:
            return lvl
    return -1


def labels(c, o):
    if c["k"] == "bins":
        yield "bins/%s/one=%s/%s" % (c["fmt"], c["one"], o["t"])
        if o["t"] == "int":
            yield "level-of-result=%d" % level_of(o["v"])
        inr = (c["s"] >= (1 if c["fmt"] == "gff" else 0)) and c["s"] < 2**29 and 0 <= c["e"] < 2**29
        yield "in-range" if inr else "out-of-range"
        yield "start<=end" if c["s"] <= c["e"] else "start>end"
    else:
        yield "%s/%s" % (c["k"] + ("-" + c["how"] if c["k"] == "made" else ""), o["t"])


def nontrivial_key(c, o):
    if c["k"] == "bins":
        return (c["fmt"], c["one"], o["t"], level_of(o["v"]) if o["t"] == "int" else len(o.get("runs", [])),
                c["s"] <= c["e"])
    return (c["k"], c.get("how"), o["t"], level_of(o["v"]) if o["t"] == "int" else -1)


def explain(c, o):
    return "bins/Feature.bin result differs from the 5-level UCSC binning specification on this input"
