"""C09 — dialect inference: per line, weighted vote over the window, supplied dialect, persistence, routing."""
import os
import shutil
import tempfile
import coqlit as L
from props import grammar as G

COQ_CORR = "Corr.C09"
GEN_DEPS = ["GenConst.v"]
SHARD = 150
RULE = ("files of 1..9 feature lines whose attribute columns are rendered from data: (a) one style out of all 36 with >= 2 "
        "parts per line; (b) two-valued mixtures of one dialect key (trailing semicolon, field separator, key/value style, "
        "repeated keys, quoting) with generated attribute counts incl. exact ties in both orders and zero-weight (empty "
        "column) lines placed first, middle and last; (c) exon lines carrying gene_id/transcript_id so that the importer "
        "that ran is observable, with force_gff on and off; (d) explicitly supplied dialects; checklines in 0..n+2 and 10. "
        "Observed: helpers.infer_dialect per line, DataIterator.dialect for the path and for a list of Feature objects, "
        "the dialect on the first yielded feature, create_db(...).dialect, the dialect after reopening the file, and the "
        "number of derived features.  non-trivial = >= 2 lines; distinct by (kind, kv styles, #lines, checklines class, "
        "weights pattern)")
ASSUMPTIONS = ["the number of inspected lines (checklines vs checklines+1) is not fixed by the property: cases whose outcome "
               "depends on it are classified out of domain inside Coq",
               "re \\w table (Base/WordTable.v) and urllib.parse.unquote model as in C07/C08"]

GTF_KEYS = ["gene_id", "transcript_id"]


def gen_attrs_n(rng, st, n, routing=False):
    """exactly n attributes (n >= 0), each with >= 1 value, first one not a flag"""
    used = set()
    attrs = []
    if routing:
        g = "G%d" % rng.randrange(3)
        attrs = [["gene_id", [g]], ["transcript_id", [g + ".t%d" % rng.randrange(2)]]]
        used = set(GTF_KEYS)
    while len(attrs) < n:
        k = G.gen_key(rng, used)
        if k in GTF_KEYS and not routing:
            continue
        nv = rng.choice([1, 1, 2, 3])
        for _ in range(100):
            vs = [G.gen_value(rng, st["kv"], adversarial=rng.random() < 0.5) for _ in range(nv)]
            if G.joined_not_quoted(st["kv"], st["repeated"], vs):
                break
        else:
            vs = ["v"] * nv
        attrs.append([k, vs])
    return attrs[:max(n, len(attrs))] if routing else attrs[:n]


def line_of(st, attrs):
    return {"st": st, "attrs": attrs, "col": G.render_attrs(st, attrs)}


def nparts(st, attrs):
    return len(G.expand(st, attrs))


def flip(st, key, rng):
    st2 = dict(st)
    if key == "trailing":
        st2["trailing"] = not st["trailing"]
    elif key == "fsep":
        st2["fsep"] = rng.choice([f for f in G.FSEPS if f != st["fsep"]])
    elif key == "kv":
        st2["kv"] = rng.choice([k for k in G.KVS if k != st["kv"]])
    elif key == "repeated":
        st2["repeated"] = not st["repeated"]
    return st2


def checklines_for(rng, n):
    return rng.choice([0, 1, 2, max(0, n - 1), n, n + 2, 10])


def gen_cases(rng, tier):
    cases = []
    styles = G.all_styles()
    nq = 2 if tier == "quick" else 14
    # (a) consistent files
    for rep in range(nq):
        for st in styles:
            for n in (1, 2, 4, 7):
                lines = []
                for _ in range(n):
                    a = gen_attrs_n(rng, st, rng.choice([2, 2, 3, 5]))
                    lines.append(line_of(st, a))
                cases.append({"kind": "consistent", "lines": lines, "checklines": checklines_for(rng, n), "supplied": None,
                              "force_gff": False, "consistent": st, "gtf_keys": False})
    # (b) mixtures of two values of one dialect key, weights incl. ties
    for rep in range(nq * 6):
        for key in ("trailing", "fsep", "kv", "repeated"):
            for pattern in ("tie_ab", "tie_ba", "a_heavier", "b_heavier", "zero_first", "zero_mid", "many"):
                st_a = rng.choice(styles)
                st_b = flip(st_a, key, rng)
                wa = rng.choice([2, 3, 4])
                if pattern in ("tie_ab", "tie_ba", "zero_first", "zero_mid"):
                    wb = wa
                elif pattern == "a_heavier":
                    wb = wa - 1 if wa > 2 else 2
                    wa = wb + rng.choice([1, 2])
                else:
                    wb = wa + rng.choice([1, 2])
                la = line_of(st_a, gen_attrs_n(rng, st_a, wa))
                lb = line_of(st_b, gen_attrs_n(rng, st_b, wb))
                empty = {"st": None, "attrs": [], "col": ""}
                if pattern == "tie_ba":
                    lines = [lb, la]
                elif pattern == "zero_first":
                    lines = [empty, lb, la]
                elif pattern == "zero_mid":
                    lines = [la, empty, lb]
                elif pattern == "many":
                    lines = [rng.choice([la, lb, empty, line_of(st_a, gen_attrs_n(rng, st_a, rng.choice([1, 2, 3]))),
                                         line_of(st_b, gen_attrs_n(rng, st_b, rng.choice([1, 2, 3])))])
                             for _ in range(rng.choice([3, 5, 9]))]
                else:
                    lines = [la, lb]
                n = len(lines)
                cl = rng.choice([n, n + 2, 10, 10, rng.randrange(0, n + 1)])
                cases.append({"kind": "mix-%s-%s" % (key, pattern), "lines": lines, "checklines": cl, "supplied": None,
                              "force_gff": False, "consistent": None, "gtf_keys": False})
    # (c) routing
    for rep in range(nq):
        for st in styles:
            n = rng.choice([1, 2, 3])
            lines = [line_of(st, gen_attrs_n(rng, st, rng.choice([2, 3]), routing=True)) for _ in range(n)]
            if rng.random() < 0.3:
                st2 = flip(st, "kv", rng)
                lines.insert(rng.randrange(len(lines) + 1), line_of(st2, gen_attrs_n(rng, st2, rng.choice([2, 3, 4]), routing=True)))
            cases.append({"kind": "routing", "lines": lines, "checklines": rng.choice([0, 10]), "supplied": None,
                          "force_gff": rng.random() < 0.3, "consistent": None, "gtf_keys": True})
    # (d) supplied dialect
    for rep in range(nq):
        for st in styles:
            n = rng.choice([1, 3])
            lines = [line_of(st, gen_attrs_n(rng, st, rng.choice([2, 3]))) for _ in range(n)]
            d = G.canon_dialect(st, lines[0]["attrs"])
            r = rng.random()
            if r < 0.4:
                d = dict(d, **{"trailing semicolon": not d["trailing semicolon"]})
            elif r < 0.6:
                d = dict(d, order=list(reversed(d["order"])))
            cases.append({"kind": "supplied", "lines": lines, "checklines": rng.choice([0, 1, 10]), "supplied": d,
                          "force_gff": False, "consistent": None, "gtf_keys": False})
    # (e) attribute columns outside the style grammar (separators inside values, quoting with '=', commas with blanks,
    #     valueless keys ...): the per-line model and the vote are the oracle
    RAW = ['note "alpha;beta"; gene_id "g1"; transcript_id "t1";', 'gene_id "g1"; note "a; b"; transcript_id "t1";',
           'ID="g1";Alias="a,b,c"', 'ID=x;Note=binds DNA, RNA', 'ID=x ; Name=y', 'ID=x;Name=y;', 'Name=N;Alias=a,,b,;ID=y',
           'gene_id "locus=7"; transcript_id "locus=7.t1";', 'ID=a;flag;Name=b', 'ID=a;;Name=b', 'a=b=c;ID=q', 'ID', '', '.',
           'gene_id "g"; tag "a"; tag "b"; flag "";', 'Parent=p1,p2;ID=c', 'Parent=p1;Parent=p2;ID=c', 'ID=%41%3B;Name=n']
    for r0 in RAW:
        for n in (1, 3):
            cases.append({"kind": "raw", "lines": [{"st": None, "attrs": [], "col": r0} for _ in range(n)], "checklines": 10,
                          "supplied": None, "force_gff": False, "consistent": None, "gtf_keys": False})
    for rep in range(nq * 10):
        n = rng.choice([1, 2, 3, 5])
        pool = rng.sample(RAW, rng.choice([1, 2, 3]))
        lines = [{"st": None, "attrs": [], "col": rng.choice(pool)} for _ in range(n)]
        cases.append({"kind": "raw", "lines": lines, "checklines": rng.choice([0, 1, 10]), "supplied": None,
                      "force_gff": False, "consistent": None, "gtf_keys": False})
    return cases


def valid_case(c):
    try:
        return len(c["lines"]) >= 1 and all("\n" not in l["col"] and "\r" not in l["col"] and "\t" not in l["col"]
                                            and l["col"] == l["col"].rstrip("\n\r") for l in c["lines"]) \
            and isinstance(c["checklines"], int) and c["checklines"] >= 0
    except Exception:
        return False


def shrinks(c):
    ls = c["lines"]
    if len(ls) > 1:
        for i in range(len(ls)):
            yield dict(c, lines=ls[:i] + ls[i + 1:])
    if c["checklines"] > 0:
        yield dict(c, checklines=c["checklines"] - 1)
    if c["consistent"] is not None:
        yield dict(c, consistent=None)


def feature_lines(c):
    ft = "exon" if c["gtf_keys"] else "region"
    return ["chr1\tsrc\t%s\t%d\t%d\t.\t+\t.\t%s" % (ft, 10 * i + 1, 10 * i + 8, l["col"]) for i, l in enumerate(c["lines"])]


def dl(d):
    d = dict(d)
    d["order"] = list(d["order"])
    if not G.dialect_ok(d):
        raise ValueError("dialect of unexpected shape: %r" % (d,))
    return d


def attempt(fn):
    try:
        return ["ok", dl(fn())]
    except Exception as ex:
        return ["err", L.err_class(ex)]


def run_impl(c):
    import gffutils
    from gffutils import helpers, iterators
    from gffutils.feature import feature_from_line
    lines = feature_lines(c)
    d = tempfile.mkdtemp(prefix="c09")
    out = {}
    try:
        path = os.path.join(d, "in.gff")
        with open(path, "w", newline="") as fh:
            fh.write("\n".join(lines) + "\n")
        kw = {"checklines": c["checklines"]}
        if c["supplied"] is not None:
            kw["dialect"] = dict(c["supplied"])
        out["line_dialects"] = [dl(helpers.infer_dialect(l["col"])) for l in c["lines"]]
        out["iter"] = attempt(lambda: iterators.DataIterator(path, **kw).dialect)
        out["iter_feats"] = attempt(lambda: iterators.DataIterator([feature_from_line(x) for x in lines], **kw).dialect)
        out["first"] = attempt(lambda: next(iter(iterators.DataIterator(path, **kw))).dialect)
        dbfn = os.path.join(d, "out.db")

        def mk():
            db = gffutils.create_db(path, dbfn, force=True, merge_strategy="create_unique", force_gff=c["force_gff"], id_spec="no_such_key_zz",
                                    verbose=False, **kw)
            out["derived"] = db.count_features_of_type() - len(lines)
            r = db.dialect
            t = db.conn.execute("SELECT dialect FROM meta").fetchone()[0]
            out["meta"] = ["ok", t] if isinstance(t, str) else ["err", "Other"]
            db.conn.close()
            return r
        out["db"] = attempt(mk)
        out.setdefault("meta", ["err", "Other"])
        out.setdefault("derived", -1)

        def reopen():
            db = gffutils.FeatureDB(dbfn)
            r = db.dialect
            db.conn.close()
            return r
        out["reopen"] = attempt(reopen)

        def updated():
            # the dialect a database reports is the one of the input it was created from - also after an update() with
            # differently written lines and a reopen
            db = gffutils.FeatureDB(dbfn)
            other = ('chr9\tsrc\tregion\t1\t5\t.\t+\t.\tzz_key "1" ; zz_other "2" ;' if db.dialect["fmt"] == "gff3"
                     else 'chr9\tsrc\tregion\t1\t5\t.\t+\t.\tzz_key=1;zz_other=2')
            db.update(other + "\n", from_string=True, make_backup=False, merge_strategy="create_unique", id_spec="no_such_key_zz",
                      verbose=False)
            db.conn.close()
            db = gffutils.FeatureDB(dbfn)
            r = db.dialect
            # ... and the added line was read in the dialect it is written in, not in the database's
            added = [dict((k, list(v)) for k, v in f.attributes.items()) for f in db.features_of_type("region") if f.seqid == "chr9"]
            db.conn.close()
            if added != [{"zz_key": ["1"], "zz_other": ["2"]}]:
                raise ValueError("update() stored %r for the added line" % (added,))
            return r
        if out["reopen"][0] == "ok":
            out["updated"] = attempt(updated)
        else:
            out["updated"] = out["reopen"]
    finally:
        shutil.rmtree(d, ignore_errors=True)
    return out


def coq_case(c, o):
    rd = lambda r: L.res(r, G.coq_dialect)
    obs = "(mkC09 %s %s %s %s %s %s %s %s %s)" % (L.lst([G.coq_dialect(x) for x in o["line_dialects"]], "dialect"), rd(o["iter"]),
                                                  rd(o["iter_feats"]), rd(o["db"]), rd(o["reopen"]), rd(o["first"]), L.z(o["derived"]),
                                                  L.res(o["meta"], L.s), rd(o.get("updated", o["reopen"])))
    return "CVote %s %d%%nat %s %s %s %s %s" % (
        L.ss([l["col"] for l in c["lines"]]), c["checklines"], L.opt(c["supplied"], G.coq_dialect, "dialect"),
        L.b(c["force_gff"]), L.opt(c["consistent"], G.coq_style, "style"), L.b(c["gtf_keys"]), obs)


def labels(c, o):
    yield "kind=" + c["kind"].split("-")[0]
    yield "nlines=%d" % len(c["lines"])
    yield "checklines%s" % ("<n" if c["checklines"] + 1 < len(c["lines"]) else ">=n")
    if o["iter"][0] == "ok":
        yield "fmt=" + o["iter"][1]["fmt"]
    if c["gtf_keys"]:
        yield "importer=%s" % ("gtf" if o["derived"] > 0 else "gff")


def nontrivial_key(c, o):
    if len(c["lines"]) < 2:
        return None
    return (c["kind"], tuple((l["st"] or {}).get("kv") for l in c["lines"]), c["checklines"] + 1 >= len(c["lines"]),
            tuple(len(l["attrs"]) for l in c["lines"]))


def explain(c, o):
    return ("the dialect reported by DataIterator / create_db / the reopened database / infer_dialect differs from the "
            "weighted-majority vote over the inspected lines (ties to the value seen first), from the style the file was "
            "written in, or the wrong importer ran")
