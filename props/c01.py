"""C01 — import fidelity: whole files through create_db, all_features, str(), reopen, re-import."""
import os
import shutil
import tempfile
import coqlit as L
from props import grammar as G

COQ_CORR = "Corr.C01"
GEN_DEPS = ["GenConst.v"]
SHARD = 40
RULE = ("whole files of 1..14 feature lines (plus comment, directive and blank lines) written in one of the 36 styles: key "
        "sequences either shared by all lines, led by a first line that carries every key, or free (the latter mostly leave "
        "the domain through the printer's single-order limitation and are counted as out_of_domain); values from the "
        "adversarial alphabet; '.' coordinates; extra columns; checklines in {0,1,2,n-1,n,n+2,10}; keep_order and "
        "sort_attribute_values on/off; file and :memory: databases; observed per stored feature: columns, coordinates, "
        "attributes, extras, dialect, str(f) - for the :memory: database, the file database, the file database after "
        "close + reopen, and the database re-imported from the printed features.  non-trivial = >= 2 lines in domain; "
        "distinct by (style, #lines, checklines class, settings, key-sequence mode)")
ASSUMPTIONS = ["ids are autoincremented (id_spec names an absent key) and GTF gene/transcript inference is switched off, so "
               "that the stored rows are exactly the input lines: id handling, merge strategies and inference are C04/C05/C03",
               "simplejson round trip of attributes/extra/dialect is modelled as the identity and checked here by the "
               "reopen observations"]


def gen_file(rng, st, mode):
    n = rng.choice([1, 2, 3, 5, 8, 14])
    lines = []
    if mode == "same":
        proto = G.gen_attrs(rng, st, nmax=5)
        while len(G.expand(st, proto)) < 2:
            proto = G.gen_attrs(rng, st, nmax=5)
    for i in range(n):
        ln = G.gen_line(rng, st)
        if mode == "same":
            attrs = []
            for k, vs in proto:
                nv = len(vs)
                for _ in range(100):
                    new = [G.gen_value(rng, st["kv"]) for _ in range(nv)]
                    if G.joined_not_quoted(st["kv"], st["repeated"], new):
                        break
                else:
                    new = ["v"] * nv
                attrs.append([k, new])
            ln["attrs"] = attrs
        elif mode == "first_all":
            if i == 0:
                ln["attrs"] = G.gen_attrs(rng, st, nmax=6)
                while len(G.expand(st, ln["attrs"])) < 2:
                    ln["attrs"] = G.gen_attrs(rng, st, nmax=6)
                first = ln["attrs"]
            else:
                # a subsequence of the first line's keys, fresh values
                sub = [kv for kv in first if rng.random() < 0.7] or first[:1]
                if st["kv"] == "eq" and not sub[0][1]:
                    sub = [kv for kv in first if kv[1]][:1] + [kv for kv in sub if kv[1] == [] or kv != sub[0]][1:]
                attrs = []
                for k, vs in sub:
                    nv = len(vs)
                    for _ in range(100):
                        new = [G.gen_value(rng, st["kv"]) for _ in range(nv)]
                        if G.joined_not_quoted(st["kv"], st["repeated"], new):
                            break
                    else:
                        new = ["v"] * nv
                    attrs.append([k, new])
                ln["attrs"] = attrs
        ln["st"] = st
        lines.append(ln)
    return lines


def gen_cases(rng, tier):
    cases = []
    styles = G.all_styles()
    reps = 4 if tier == "quick" else 24
    for rep in range(reps):
        for i, st in enumerate(styles):
            for mode in ("same", "first_all", "free"):
                if mode == "free" and (rep + i) % 2:
                    continue
                lines = gen_file(rng, st, mode)
                n = len(lines)
                # a quarter of the files are keyed on an ID attribute that several lines share: merge_strategy='create_unique'
                # keeps all lines (under new keys) and must leave their attributes as they were written
                idkey = (rep + i) % 4 == 1 and not any(k == "ID" for ln in lines for k, _ in ln["attrs"])
                if idkey:
                    for ln in lines:
                        ln["attrs"].insert(0, ["ID", [rng.choice(["a", "b", "c"])]])
                junk = []
                for j in range(n + 1):
                    if rng.random() < 0.2:
                        junk.append([j, rng.choice(["#comment", "##directive x", "", "###"])])
                cases.append({"st": st, "mode": mode, "lines": lines, "junk": junk, "idkey": idkey,
                              "checklines": rng.choice([0, 1, 2, max(0, n - 1), n, n + 2, 10, 10]),
                              "keep_order": rng.random() < 0.75, "sort_values": rng.random() < 0.2})
    for i in range(150 if tier == "quick" else 3000):
        cases.append({"k": "raw", "raw": gen_raw_file(rng), "checklines": rng.choice([0, 1, 2, 10, 10]),
                      "keep_order": rng.random() < 0.75, "sort_values": rng.random() < 0.15})
    return cases


RAW_ATTRS = ["", ".", "ID=a", "Parent=t1,", "Dbxref=DB:3,,DB:4", "Alias=,second", "Name=G1;ID=g1", "ID=g2;Name=G2", "ID=x;Note=a b",
             'gene_id "g"; transcript_id "t";', 'transcript_id "t"; gene_id "g";', "ID=x;;Name=y", "ID=x;", "flag", "ID=x;flag;Name=y",
             "a=b=c;ID=q", "ID=%41%3B;Name=n", "ID=x ; Name=y", "ID=x; Name=y; ", "Parent=p1,p2;ID=c", "Parent=p1;Parent=p2;ID=c",
             "Note=,;ID=z", "ID=z;Note=", "Name=N;Alias=a,,b,;ID=y", 'gene_id "g"; tag "a"; tag "b"; flag "";', "ID=one", "Name=only"]


def gen_raw_file(rng):
    n = rng.choice([1, 2, 3, 4, 6, 12])
    lead = rng.choice([0, 0, 1, 2, 3, 11])          # leading lines whose attribute column is empty
    lines = []
    pool = rng.sample(RAW_ATTRS, rng.choice([1, 2, 3, 5]))
    for i in range(n):
        a = rng.choice(["", ".", ""]) if i < lead else rng.choice(pool)
        cols = [G.gen_col(rng) for _ in range(6)]
        s, e = G.gen_coord(rng), G.gen_coord(rng)
        fields = [cols[0], cols[1], cols[2], G.coord_str(s), G.coord_str(e), cols[3], cols[4], cols[5], a]
        if rng.random() < 0.15:
            fields.append(rng.choice(["x", "a b", "k=v"]))
        lines.append("\t".join(fields))
    return lines


def valid_case(c):
    if c.get("k") == "raw":
        return isinstance(c.get("raw"), list) and len(c["raw"]) >= 1 and all(isinstance(x, str) and x.count("\t") >= 8 and "\n" not in x
                                                                           for x in c["raw"]) and c["checklines"] >= 0
    try:
        return len(c["lines"]) >= 1 and all(len(set(k for k, _ in ln["attrs"])) == len(ln["attrs"]) for ln in c["lines"]) \
            and c["checklines"] >= 0
    except Exception:
        return False


def shrinks(c):
    if c.get("k") == "raw":
        r = c["raw"]
        for i in range(len(r)):
            if len(r) > 1:
                yield dict(c, raw=r[:i] + r[i + 1:])
        if c["checklines"] > 0:
            yield dict(c, checklines=c["checklines"] - 1)
        return
    ls = c["lines"]
    if len(ls) > 1:
        for i in range(len(ls)):
            yield dict(c, lines=ls[:i] + ls[i + 1:], junk=[])
    if c["junk"]:
        yield dict(c, junk=[])
    if c["checklines"] > 0:
        yield dict(c, checklines=c["checklines"] - 1)
    for i, ln in enumerate(ls):
        if ln["extras"]:
            yield dict(c, lines=ls[:i] + [dict(ln, extras=[])] + ls[i + 1:])
        for j in range(len(ln["attrs"])):
            if len(ln["attrs"]) > 1:
                yield dict(c, lines=ls[:i] + [dict(ln, attrs=ln["attrs"][:j] + ln["attrs"][j + 1:])] + ls[i + 1:])


def file_text(c):
    if c.get("k") == "raw":
        return list(c["raw"]), "\n".join(c["raw"]) + "\n"
    raw = [G.render_line(dict(ln, st=c["st"])) for ln in c["lines"]]
    out = []
    junk = {}
    for pos, text in c["junk"]:
        junk.setdefault(pos, []).append(text)
    for i, r in enumerate(raw):
        out.extend(junk.get(i, []))
        out.append(r)
    out.extend(junk.get(len(raw), []))
    return raw, "\n".join(out) + "\n"


def db_obs(db):
    d = dict(db.dialect)
    d["order"] = list(d["order"])
    if not G.dialect_ok(d):
        raise ValueError("dialect of unexpected shape")
    # what a caller does to the objects it was handed must not leak into later reads of the database
    for f in db.all_features():
        try:
            keys = list(f.attributes.keys())
            if keys:
                f.attributes[keys[0]].append("zz-edited")
            f.attributes["zz_edit"] = ["1"]
            f.extra.append("zz")
        except Exception:
            pass
    feats = []
    for f in db.all_features():
        o = G.feature_obs(f)
        if not G.obs_ok(o):
            raise ValueError("feature of unexpected shape")
        feats.append(o)
    return {"dialect": d, "feats": feats}


def run_impl(c):
    import gffutils
    raw, text = file_text(c)
    d = tempfile.mkdtemp(prefix="c01")
    kw = dict(checklines=c["checklines"], keep_order=c["keep_order"], sort_attribute_values=c["sort_values"],
              id_spec="ID" if c.get("idkey") else "no_such_key_zz", merge_strategy="create_unique", disable_infer_genes=True,
              disable_infer_transcripts=True, verbose=False)
    out = {"raw": raw}

    def attempt(fn):
        try:
            return ["ok", fn()]
        except Exception as ex:
            return ["err", L.err_class(ex)]
    try:
        path = os.path.join(d, "in.gff")
        with open(path, "w", newline="") as fh:
            fh.write(text)
        dbfn = os.path.join(d, "out.db")

        def mem():
            return db_obs(gffutils.create_db(path, ":memory:", **kw))

        def filedb():
            db = gffutils.create_db(path, dbfn, force=True, **kw)
            r = db_obs(db)
            out["_printed"] = [str(f) for f in db.all_features()]
            db.conn.close()
            return r

        def reopen():
            db = gffutils.FeatureDB(dbfn, keep_order=c["keep_order"], sort_attribute_values=c["sort_values"])
            r = db_obs(db)
            db.conn.close()
            return r

        def reimport():
            return db_obs(gffutils.create_db("\n".join(out["_printed"]) + "\n", ":memory:", from_string=True, **kw))
        out["mem"] = attempt(mem)
        out["file"] = attempt(filedb)
        out["reopen"] = attempt(reopen)
        out["reimport"] = attempt(reimport) if "_printed" in out else ["err", "Other"]
        out.pop("_printed", None)
    finally:
        shutil.rmtree(d, ignore_errors=True)
    return out


def coq_feature(ln):
    oz = lambda v: L.opt(v, L.z, "Z")
    c = ln["cols"]
    return "(F %s %s %s %s %s %s %s %s %s %s default_dialect)" % (
        L.s(c[0]), L.s(c[1]), L.s(c[2]), oz(ln["s"]), oz(ln["e"]), L.s(c[3]), L.s(c[4]), L.s(c[5]),
        G.coq_attrs(ln["attrs"]), L.ss(ln["extras"]))


def coq_dbobs(o):
    return "(mkDbObs %s %s)" % (G.coq_dialect(o["dialect"]), L.lst([G.coq_fobs(f) for f in o["feats"]], "fobs"))


def coq_case(c, o):
    cfg = "(mkCfg %d%%nat (@None dialect) %s %s)" % (c["checklines"], L.b(c["keep_order"]), L.b(c["sort_values"]))
    r = lambda x: L.res(x, coq_dbobs)
    if c.get("k") == "raw":
        return "CRaw %s %s %s %s %s" % (L.ss(o["raw"]), cfg, r(o["mem"]), r(o["file"]), r(o["reopen"]))
    return "CFile %s %s %s %s %s %s %s %s" % (
        G.coq_style(c["st"]), L.lst([coq_feature(ln) for ln in c["lines"]], "feature"), L.ss(o["raw"]), cfg,
        r(o["mem"]), r(o["file"]), r(o["reopen"]), r(o["reimport"]))


def labels(c, o):
    if c.get("k") == "raw":
        yield "mode=raw"
        yield "nlines=%d" % len(c["raw"])
        yield "raw/import=" + o["mem"][0]
        if c["raw"][0].split("\t")[8] in ("", "."):
            yield "raw/first-line-has-no-attributes"
        return
    yield "mode=" + c["mode"]
    yield "kv=" + c["st"]["kv"]
    yield "nlines=%d" % len(c["lines"])
    yield "checklines%s" % ("<n" if c["checklines"] + 1 < len(c["lines"]) else ">=n")
    yield "keep_order=%s" % c["keep_order"]
    if c.get("idkey"):
        yield "keyed-on-shared-ID"
    if c["sort_values"]:
        yield "sort_values"
    if c["junk"]:
        yield "non-feature-lines"


def nontrivial_key(c, o):
    if c.get("k") == "raw":
        return ("raw", tuple(x.split("\t")[8] for x in c["raw"][:3]), c["checklines"], c["keep_order"]) if len(c["raw"]) > 1 else None
    if len(c["lines"]) < 2:
        return None
    st = c["st"]
    return (st["kv"], st["fsep"], st["trailing"], st["repeated"], len(c["lines"]), c["checklines"] + 1 >= len(c["lines"]),
            c["keep_order"], c["sort_values"], c["mode"])


def explain(c, o):
    return ("the features stored by create_db (columns, attributes, extras, printed form) differ from the input lines, "
            "between :memory:/file/reopened databases, or after re-importing the printed features")
