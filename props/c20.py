"""C20 — concurrent create_db runs in separate processes sharing one temp dir; concurrent readers."""
import gc
import itertools
import json
import os
import shutil
import sqlite3
import sys
import tempfile
import time
import coqlit as L
from props import imp

COQ_CORR = "Corr.C20"
GEN_DEPS = ["GenBins.v"]
SHARD = 12
SHRINK = False
RULE = ("groups of 2-24 create_db runs in separate (forked) processes - GFF3 and GTF inputs, given as a path or as text "
        "(from_string), same and different inputs, separate output files, ONE shared temp dir: (a) driven schedules: every "
        "interleaving of the temp-file sync points (creation of a temp file, removal of a temp file) of 2 processes and "
        "sampled interleavings of 3, enforced by file barriers patched into tempfile.NamedTemporaryFile/os.unlink of the "
        "children; (b) free-running groups of 4, 8, 16 and 24 processes (below and above the 16 cores) released together or "
        "with start offsets; (c) 2-12 concurrent readers of one finished database.  Observed: every output database "
        "against the solitary run of the same import, each child's temp-dir operations (names created, names removed, "
        "monotonic time stamps) merged into one global trace, the listing of the shared temp dir at the end.  non-trivial = "
        ">= 2 processes whose temp files are alive at the same time; distinct by (kinds, schedule)")
ASSUMPTIONS = ["PARTIAL by nature: real overlap inside sqlite and the kernel is runtime behaviour; the Coq theorems are about the "
               "interleaving model (Model/Conc.v) under the O_EXCL freshness oracle, and this check ties them to the code by "
               "replaying the observed temp-file trace against the model's directory discipline and programs",
               "children are forked from the harness worker (no exec); barriers are polled files in a control directory "
               "outside the shared temp dir"]

SHM = "/dev/shm" if os.path.isdir("/dev/shm") else None


def gff_text(k, n):
    out = []
    for g in range(n):
        gid = "g%d_%d" % (k, g)
        out.append("chr1\tsrc\tgene\t%d\t%d\t.\t+\t.\tID=%s" % (100 * g + 1, 100 * g + 90, gid))
        out.append("chr1\tsrc\tmRNA\t%d\t%d\t.\t+\t.\tID=%s.t;Parent=%s" % (100 * g + 1, 100 * g + 90, gid, gid))
        for e in range(2):
            out.append("chr1\tsrc\texon\t%d\t%d\t.\t+\t.\tParent=%s.t" % (100 * g + 1 + 40 * e, 100 * g + 30 + 40 * e, gid))
    return "\n".join(out) + "\n"


def gtf_text(k, n):
    out = []
    for g in range(n):
        gid = "G%d_%d" % (k, g)
        for t in range(2):
            for e in range(2):
                out.append('chr2\tsrc\texon\t%d\t%d\t.\t-\t.\tgene_id "%s"; transcript_id "%s.t%d";'
                           % (200 * g + 1 + 50 * e, 200 * g + 30 + 50 * e + 5 * t, gid, gid, t))
    return "\n".join(out) + "\n"


def gtf_cds_text(k, n):
    """a GTF without a single exon line: nothing to infer from, the intermediate file stays empty"""
    out = []
    for g in range(n):
        gid = "C%d_%d" % (k, g)
        out.append('chr3\tsrc\tCDS\t%d\t%d\t.\t+\t0\tgene_id "%s"; transcript_id "%s.t0";' % (300 * g + 1, 300 * g + 90, gid, gid))
        out.append('chr3\tsrc\tstart_codon\t%d\t%d\t.\t+\t0\tgene_id "%s"; transcript_id "%s.t0";' % (300 * g + 1, 300 * g + 3, gid, gid))
    return "\n".join(out) + "\n"


def proc(fmt, k, n, from_string=False):
    return {"fmt": fmt, "k": k, "n": n, "from_string": from_string}


def text_of(p):
    if p["fmt"] == "gtf_cds":
        return gtf_cds_text(p["k"], p["n"])
    return gff_text(p["k"], p["n"]) if p["fmt"] == "gff3" else gtf_text(p["k"], p["n"])       # gtf, gtf_noinfer


def nsync(p):
    return 4 if p["from_string"] else 2


def interleavings(counts):
    """all merges of the per-process sequences [(i,0),(i,1),...]"""
    seqs = [[(i, k) for k in range(c)] for i, c in enumerate(counts)]

    def rec(state):
        if all(s == len(seqs[i]) for i, s in enumerate(state)):
            yield []
            return
        for i, s in enumerate(state):
            if s < len(seqs[i]):
                st = list(state)
                st[i] += 1
                for rest in rec(tuple(st)):
                    yield [seqs[i][s]] + rest
    return list(rec(tuple(0 for _ in seqs)))


def gen_cases(rng, tier):
    cases = []
    pairs = [
        [proc("gff3", 0, 2), proc("gff3", 1, 2)],
        [proc("gff3", 0, 2), proc("gtf", 1, 2)],
        [proc("gtf", 0, 2), proc("gtf", 0, 2)],
        [proc("gff3", 0, 1, True), proc("gtf", 1, 1)],
        [proc("gtf_cds", 0, 1), proc("gtf", 1, 1)],
    ]
    for ps in pairs:
        for sched in interleavings([nsync(p) for p in ps]):
            cases.append({"k": "run", "procs": ps, "schedule": sched, "offsets": None})
    triples = [[proc("gff3", 0, 1), proc("gtf", 1, 1), proc("gff3", 2, 2)],
               [proc("gtf", 0, 1), proc("gtf", 1, 1, True), proc("gff3", 0, 1)]]
    for ps in triples:
        allsch = interleavings([nsync(p) for p in ps])
        for sched in rng.sample(allsch, 6 if tier == "quick" else 60):
            cases.append({"k": "run", "procs": ps, "schedule": sched, "offsets": None})
    for n in ([4, 8, 16, 24] if tier == "quick" else [4, 8, 12, 16, 17, 24, 24, 32]):
        # gtf_noinfer: a GTF import with both kinds of inference switched off (nothing to derive, nothing to leave behind)
        ps = [proc(rng.choice(["gff3", "gtf", "gtf_cds", "gtf_noinfer"]), rng.randrange(3), rng.choice([1, 2, 3]), rng.random() < 0.15) for _ in range(n)]
        cases.append({"k": "run", "procs": ps, "schedule": None, "offsets": None})
        cases.append({"k": "run", "procs": ps, "schedule": None, "offsets": [rng.choice([0, 0, 1, 3, 10]) for _ in range(n)]})
    for r in ([2, 5, 12] if tier == "quick" else [2, 5, 12, 24, 40]):
        cases.append({"k": "readers", "proc": proc(rng.choice(["gff3", "gtf"]), 0, 3), "readers": r})
    return cases


def valid_case(c):
    return c.get("k") in ("run", "readers")


def dump(path):
    conn = sqlite3.connect(path)
    try:
        t = imp.dump_tables(conn)
    finally:
        conn.close()
    if not imp.tables_ok(t):
        raise ValueError("tables of unexpected shape")
    return t


def out_name(i):
    """outputs of the runs of one group: names that extend one another (annotation, annotation-1, annotation-2 ...), all in
    one directory - each run owns exactly its own path and nothing that merely looks like it"""
    return "annotation" if i == 0 else "annotation-%d" % i


def do_import(p, out_path, indir):
    import gffutils
    text = text_of(p)
    kw = dict(disable_infer_genes=True, disable_infer_transcripts=True) if p["fmt"] == "gtf_noinfer" else {}
    if p["from_string"]:
        if (p["k"] + p["n"]) % 2:
            kw["transform"] = lambda f: f          # a transform that changes nothing: the temp copy of the text still goes away
        db = gffutils.create_db(text, out_path, from_string=True, force=True, verbose=False, **kw)
    else:
        src = os.path.join(indir, "in_%s_%d_%d_%d.txt" % (p["fmt"], p["k"], p["n"], os.getpid()))
        with open(src, "w") as fh:
            fh.write(text)
        db = gffutils.create_db(src, out_path, force=True, verbose=False, **kw)
    db.conn.close()


def wait_for(path, timeout, alive=None):
    t0 = time.time()
    while not os.path.exists(path):
        if time.time() - t0 > timeout:
            return False
        if alive is not None and not alive():
            return os.path.exists(path)
        time.sleep(0.002)
    return True


def child_main(i, p, shared, ctl, outdir, driven, offset_ms):
    """runs in the forked child: patch the temp-file entry points, wait for the start signal, import"""
    code = 1
    try:
        sys.stderr = open(os.devnull, "w")
        tempfile.tempdir = shared
        os.environ["TMPDIR"] = shared
        events = []
        counter = [0]

        def sync_before():
            k = counter[0]
            counter[0] += 1
            if driven:
                wait_for(os.path.join(ctl, "go.%d.%d" % (i, k)), 8.0)
            return k

        def sync_after(k):
            if driven:
                open(os.path.join(ctl, "done.%d.%d" % (i, k)), "w").close()
        orig_ntf = tempfile.NamedTemporaryFile
        orig_unlink = os.unlink
        orig_remove = os.remove

        def ntf(*a, **kw):
            k = sync_before()
            f = orig_ntf(*a, **kw)
            events.append([time.monotonic_ns(), "create", f.name])
            sync_after(k)
            return f

        def mk_rm(orig):
            def rm(path, *a, **kw):
                try:
                    inside = os.path.dirname(os.path.abspath(path)) == shared
                except Exception:
                    inside = False
                if not inside:
                    return orig(path, *a, **kw)
                k = sync_before()
                try:
                    r = orig(path, *a, **kw)
                    events.append([time.monotonic_ns(), "unlink", os.path.abspath(path)])
                    return r
                finally:
                    sync_after(k)
            return rm
        tempfile.NamedTemporaryFile = ntf
        os.unlink = mk_rm(orig_unlink)
        os.remove = mk_rm(orig_remove)
        wait_for(os.path.join(ctl, "start"), 20.0)
        if offset_ms:
            time.sleep(offset_ms / 1000.0)
        ok = True
        try:
            do_import(p, os.path.join(outdir, out_name(i)), outdir)
        except BaseException:
            ok = False
        with open(os.path.join(ctl, "trace.%d.json" % i), "w") as fh:
            json.dump({"ok": ok, "events": events}, fh)
        code = 0
    finally:
        os._exit(code)


def reader_main(i, dbfn, ctl):
    code = 1
    try:
        sys.stderr = open(os.devnull, "w")
        import gffutils
        wait_for(os.path.join(ctl, "start"), 20.0)
        db = gffutils.FeatureDB(dbfn)
        n = sum(1 for _ in db.all_features())
        t = imp.dump_tables(db.conn)
        t["n_iter"] = n
        with open(os.path.join(ctl, "read.%d.json" % i), "w") as fh:
            json.dump(t, fh)
        code = 0
    finally:
        os._exit(code)


def reap(pids, timeout):
    t0 = time.time()
    left = set(pids)
    while left and time.time() - t0 < timeout:
        for pid in list(left):
            r, _ = os.waitpid(pid, os.WNOHANG)
            if r == pid:
                left.discard(pid)
        if left:
            time.sleep(0.005)
    for pid in left:
        try:
            os.kill(pid, 9)
            os.waitpid(pid, 0)
        except Exception:
            pass
    return not left


def run_impl(c):
    import warnings
    warnings.simplefilter("ignore")
    root = tempfile.mkdtemp(prefix="c20", dir=SHM)
    try:
        shared = os.path.join(root, "tmp")
        ctl = os.path.join(root, "ctl")
        outdir = os.path.join(root, "out")
        soldir = os.path.join(root, "solo")
        for d in (shared, ctl, outdir, soldir):
            os.mkdir(d)
        if c["k"] == "readers":
            dbfn = os.path.join(outdir, "r.db")
            saved = tempfile.tempdir
            tempfile.tempdir = soldir
            try:
                do_import(c["proc"], dbfn, outdir)
            finally:
                tempfile.tempdir = saved
            direct = dump(dbfn)
            pids = []
            for i in range(c["readers"]):
                pid = os.fork()
                if pid == 0:
                    reader_main(i, dbfn, ctl)
                pids.append(pid)
            open(os.path.join(ctl, "start"), "w").close()
            reap(pids, 60)
            seen = []
            for i in range(c["readers"]):
                try:
                    t = json.load(open(os.path.join(ctl, "read.%d.json" % i)))
                    if t.pop("n_iter") != len(t["rows"]):
                        raise ValueError("iteration count differs from the table")
                    seen.append(["ok", t])
                except Exception as ex:
                    seen.append(["err", L.err_class(ex)])
            return {"direct": direct, "seen": seen}
        procs = c["procs"]
        # solitary runs, each with a private temp dir
        solitary = {}
        for p in procs:
            key = json.dumps(p, sort_keys=True)
            if key in solitary:
                continue
            sd = tempfile.mkdtemp(dir=soldir)
            saved = tempfile.tempdir
            tempfile.tempdir = sd
            try:
                out = os.path.join(sd, "s.db")
                do_import(p, out, sd)
                solitary[key] = ["ok", dump(out)]
            except Exception as ex:
                solitary[key] = ["err", L.err_class(ex)]
            finally:
                tempfile.tempdir = saved
        gc.collect()
        driven = c["schedule"] is not None
        pids = []
        for i, p in enumerate(procs):
            off = c["offsets"][i] if c["offsets"] else 0
            pid = os.fork()
            if pid == 0:
                child_main(i, p, shared, ctl, outdir, driven, off)
            pids.append(pid)
        open(os.path.join(ctl, "start"), "w").close()
        if driven:
            for (i, k) in c["schedule"]:
                def alive(pid=pids[i], i=i):
                    return not os.path.exists(os.path.join(ctl, "trace.%d.json" % i))
                open(os.path.join(ctl, "go.%d.%d" % (i, k)), "w").close()
                wait_for(os.path.join(ctl, "done.%d.%d" % (i, k)), 8.0, alive)
        finished = reap(pids, 90)
        obs = []
        events = []
        for i, p in enumerate(procs):
            ok = False
            try:
                tr = json.load(open(os.path.join(ctl, "trace.%d.json" % i)))
                ok = bool(tr["ok"])
                for ts, kind, name in tr["events"]:
                    events.append([ts, i, kind, os.path.basename(name)])
            except Exception:
                pass
            try:
                res = ["ok", dump(os.path.join(outdir, out_name(i)))]
            except Exception as ex:
                res = ["err", L.err_class(ex)]
            obs.append({"from_string": p["from_string"], "noinfer": p["fmt"] == "gtf_noinfer", "ok": ok and finished, "result": res,
                        "solitary": solitary[json.dumps(p, sort_keys=True)]})
        events.sort()
        return {"procs": obs, "trace": [e[1:] for e in events], "leftover": sorted(os.listdir(shared))}
    finally:
        shutil.rmtree(root, ignore_errors=True)


def coq_case(c, o):
    if c["k"] == "readers":
        return "CReaders %s %s" % (imp.coq_tables(o["direct"]), L.lst([imp.res_tables(r) for r in o["seen"]], "(result tables)"))
    ps = L.lst(["(mkProcObs %s %s %s %s %s)" % (L.b(p["from_string"]), L.b(bool(p.get("noinfer"))), L.b(p["ok"]), imp.res_tables(p["result"]),
                                           imp.res_tables(p["solitary"])) for p in o["procs"]], "procobs")
    tr = L.lst(["(%s %d%%nat %s)" % ("ECreate" if k == "create" else "EUnlink", i, L.s(n)) for i, k, n in o["trace"]], "ev")
    return "CRun %s %s %s" % (ps, tr, L.ss(o["leftover"]))


def overlapping(o):
    live = {}
    for i, k, n in o.get("trace", []):
        if k == "create":
            live[n] = i
            if len(set(live.values())) >= 2:
                return True
        else:
            live.pop(n, None)
    return False


def labels(c, o):
    yield "kind=" + c["k"]
    if c["k"] == "run":
        yield "nprocs=%d" % len(c["procs"])
        yield "driven" if c["schedule"] is not None else ("free+offsets" if c["offsets"] else "free")
        if overlapping(o):
            yield "temp files of >= 2 processes alive at the same time"
        for p in c["procs"]:
            yield "input=%s%s" % (p["fmt"], "/from_string" if p["from_string"] else "")
    else:
        yield "readers=%d" % c["readers"]


def nontrivial_key(c, o):
    if c["k"] == "readers":
        return ("readers", c["readers"])
    if not overlapping(o):
        return None
    return (tuple((p["fmt"], p["from_string"]) for p in c["procs"]),
            tuple(map(tuple, c["schedule"])) if c["schedule"] is not None else ("free", bool(c["offsets"]), len(c["procs"])))


def explain(c, o):
    return ("a concurrent create_db produced a database different from its solitary run, the temp-file trace is not a legal "
            "run of the model (a name created while in use, or removed by another process, or not following the importer's "
            "create/remove skeleton), or the shared temp dir is not clean afterwards")
