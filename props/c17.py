"""C17 — attribute container, JSON storage form and feature equality are coherent."""
import copy
import coqlit as L
from props import imp
from props import grammar as G

COQ_CORR = "Corr.C17"
GEN_DEPS = ["GenConst.v"]
EXTRA_TARGETS = ["Examples/C17_inhabited"]
SHARD = 300
RULE = ("container: sequences of 1-8 assignments (scalar / list / tuple / empty list; through Feature[k]=v and through "
        "feature.attributes[k]=v; repeated keys) read back under both settings of always_return_list; JSON: mappings with "
        "arbitrary Unicode keys/values (controls, quotes, backslashes, surrogate-pair characters, U+2028) through "
        "_jsonify/_unjsonify incl. key order; merge_attributes: pairs of mappings with shared/distinct keys, duplicate values, "
        "numeric and non-numeric values x numeric_sort, arguments deep-compared before/after; equality: pairs of Features "
        "differing in one column / attribute / value order / dialect / extra column, compared by ==, by printed line, by hash.  "
        "distinct by (case kind, sizes, flags)")
ASSUMPTIONS = ["simplejson is modelled as text in Model/Json.v (dumps with compact separators and ensure_ascii; strict loads on the "
               "object-of-string-lists sub-grammar); CJson cases compare the produced text character by character and the decoded "
               "mapping, CJsonText cases compare the decoder on damaged / hand-written texts"]

UNI = ["a", "b", "Z", "\xe9", " ", "\t", "\n", '"', "\\", "/", "\u2028", "\U0001F600", "\x00", "\x1f", "\x7f", "%", ";", "=", ",",
       "\u0301", "10", "9", "\x08", "\x0c", "\r", "\ud83d", "\ude00", "\ufffd", "\U0010FFFF", "\U00010000", "\uffff", "\ud7ff", "\ue000",
       "\udbff", "\udc00", "~", "\x80"]
# hand-written texts for the decoder: upper-case hex, \/ escape, whitespace, repeated keys, lone / split surrogate escapes,
# scalars instead of lists, non-string members, raw control characters, truncated escapes
JSON_TEXTS = [
    '{}', ' { } ', '{"k":[]}', '{"k":["a"]}', '{ "k" : [ "a" , "b" ] , "j" : [ ] }', '{"k":["\\u00E9\\u00e9\\/"]}',
    '{"k":["a"],"j":[],"k":["z"]}', '{"k":["\\uD83D\\uDE00"]}', '{"k":["\\uD83D"]}', '{"k":["\\uD83D\\u0041"]}',
    '{"k":["\\uDE00\\uD83D"]}', '{"k":["\\uD83D\\uD83D\\uDE00"]}', '{"k":["\\ud83d\\n"]}', '{"k":["\\ud83dx\\ude00"]}',
    '{"k":"v"}', '{"k":"v","j":["w"]}', '{"k":true}', '{"k":[true]}', '{"k":null}', '{"k":1}', '{"k":[1]}', '{"k":[["a"]]}',
    '{"k":{"a":["b"]}}', '["a"]', '"a"', '', '{', '{"k"}', '{"k":}', '{"k":["a",]}', '{"k":["a"],}', '{,}', '{"k":["a"]}}',
    '{"k":["a\tb"]}', '{"k":["a\x00b"]}', '{"k":["\\u12"]}', '{"k":["\\u12G4"]}', '{"k":["\\x41"]}', '{"k":["\\"]}',
    '{"k":["a"]', '{"k":["a]}', "{'k':['a']}", '{"k":["\\uD83D\\u12"]}', '{"k":["\\uD83D\\uZZZZ"]}', '{"k":["\\uD83D\\',
    '{"k":["\x7f\x80\xe9\U0001F600"]}', '{"k":["a"]}\n', '\t{"k":["a"]}', '{"k":["a"]} x', '{"":[""]}', '{"k":[""],"":[]}',
    '{"k":false,"j":["x"]}', '{"k":["tru"]}', '{"k":tru}', '{"k":falsey}', '{"k":[ ]}', '{"k":["a" "b"]}', '{"k" ["a"]}',
]
NUMS = ["1", "2", "10", "9", "4.2", "5", "5.0", "-3", "007", "7"]
WORDS = ["a", "b", "x1", "é", "B", "gene", ""]


def ustr(rng, n=None):
    return "".join(rng.choice(UNI) for _ in range(n if n is not None else rng.choice([1, 1, 2, 3, 6])))


def gen_mapping(rng, vals, maxk=4):
    m, used = [], set()
    for _ in range(rng.choice(range(0, maxk + 1))):
        k = rng.choice(["ID", "Name", "Note", "exon_number", "k", "é", "a b"])
        if k in used:
            continue
        used.add(k)
        vs = [rng.choice(vals) for _ in range(rng.choice([0, 1, 1, 2, 3]))]
        m.append([k, vs])
    return m


def gen_fdesc(rng):
    st = rng.choice(G.all_styles())
    a = []
    for i in range(rng.choice([0, 1, 2, 3])):
        a.append(["k%d" % i if rng.random() < 0.7 else rng.choice(["ID", "Name"]) + str(i), [rng.choice(["a", "b", "c", "x y"]) for _ in range(rng.choice([1, 1, 2]))]])
    return {"cols": [rng.choice(["chr1", "chr2"]), "src", rng.choice(["gene", "exon"]), rng.choice([".", "5"]), rng.choice("+-"), "."],
            "s": rng.choice([1, 5, None]), "e": rng.choice([10, 20, None]), "m": a, "extras": rng.choice([[], [], ["x"]]),
            "st": st,
            "keep_order": rng.random() < 0.5, "sort": rng.random() < 0.3}


def gen_cases(rng, tier):
    cases = []
    n = 1500 if tier == "quick" else 20000
    for i in range(n):
        ops = []
        for _ in range(rng.choice([1, 2, 3, 5, 8])):
            # (attribute keys may be called like a GFF column: they are still attributes)
            k = rng.choice(["ID", "Name", "Note", "é", "ID", "Name", "score", "strand", "start", "source", "featuretype", "frame"])
            r = rng.random()
            if r < 0.35:
                v = ["s", rng.choice(WORDS)]
            elif r < 0.75:
                v = ["l", [rng.choice(WORDS) for _ in range(rng.choice([0, 1, 1, 2, 3]))]]
            else:
                v = ["t", [rng.choice(WORDS) for _ in range(rng.choice([0, 1, 2]))]]
            ops.append([k, v, rng.choice(["feature", "attrs", "attrs", "setdefault", "setdefault", "update", "ctor"])])
        cases.append({"k": "ops", "ops": ops, "absent": rng.choice(["nope", "id", "seqid", "end", "strand"])})
    for i in range(n):
        m, used = [], set()
        for _ in range(rng.choice([0, 1, 2, 3, 6])):
            k = ustr(rng)
            if k in used:
                continue
            used.add(k)
            m.append([k, [ustr(rng, rng.choice([0, 1, 2, 5])) for _ in range(rng.choice([0, 1, 1, 2, 3]))]])
        cases.append({"k": "json", "m": m})
    for t in JSON_TEXTS:
        cases.append({"k": "jtext", "t": t})
    JALPHA = list('{}[]":,\\u0dD8cCeE9 tn/x') + ["\t", "\x01", "\xe9"]
    for i in range(n):
        # damaged copies of real stored texts
        m = [[ustr(rng), [ustr(rng, rng.choice([0, 1, 2, 4])) for _ in range(rng.choice([0, 1, 2]))]] for _ in range(rng.choice([1, 1, 2, 3]))]
        import json as _json
        t = list(_json.dumps(dict((k, v) for k, v in m), separators=(",", ":")))
        for _ in range(rng.choice([0, 1, 1, 2, 3])):
            if not t:
                break
            j = rng.randrange(len(t))
            r = rng.random()
            if r < 0.35:
                del t[j]
            elif r < 0.7:
                t.insert(j, rng.choice(JALPHA))
            else:
                t[j] = rng.choice(JALPHA)
        cases.append({"k": "jtext", "t": "".join(t)})
    for i in range(n):
        vals = NUMS if rng.random() < 0.5 else NUMS + WORDS[:5]
        cases.append({"k": "merge", "numeric": rng.random() < 0.5, "a1": gen_mapping(rng, vals), "a2": gen_mapping(rng, vals)})
    for i in range(n // 2):
        f = gen_fdesc(rng)
        g = copy.deepcopy(f)
        r = rng.random()
        if r < 0.25:
            pass
        elif r < 0.4:
            g["cols"][rng.randrange(6)] = "zz"
        elif r < 0.55 and g["m"]:
            g["m"][0][1] = list(reversed(g["m"][0][1])) if len(g["m"][0][1]) > 1 else g["m"][0][1] + ["q"]
        elif r < 0.65:
            g["s"] = 2
        elif r < 0.75:
            g["extras"] = g["extras"] + ["y"]
        elif r < 0.85:
            g["st"] = rng.choice(G.all_styles())
        elif r < 0.95:
            g["sort"] = not g["sort"]
        else:
            g["keep_order"] = not g["keep_order"]
        cases.append({"k": "eq", "f": f, "g": g})
    return cases


def valid_case(c):
    try:
        if c["k"] == "ops":
            return all(isinstance(k, str) and v[0] in ("s", "l", "t") and via in (True, False, "feature", "attrs", "setdefault", "update", "ctor")
                       for k, v, via in c["ops"]) and bool(c["ops"])
        if c["k"] == "json":
            ks = [k for k, _ in c["m"]]
            return len(set(ks)) == len(ks)
        if c["k"] == "jtext":
            return isinstance(c["t"], str)
        if c["k"] == "merge":
            for a in (c["a1"], c["a2"]):
                ks = [k for k, _ in a]
                if len(set(ks)) != len(ks):
                    return False
            return True
        if c["k"] == "eq":
            for f in (c["f"], c["g"]):
                ks = [k for k, _ in f["m"]]
                if len(set(ks)) != len(ks) or any(not vs or any(not v for v in vs) for _, vs in f["m"]):
                    return False
            return True
        return False
    except Exception:
        return False


def shrinks(c):
    if c["k"] == "ops":
        for i in range(len(c["ops"])):
            if len(c["ops"]) > 1:
                yield dict(c, ops=c["ops"][:i] + c["ops"][i + 1:])
    elif c["k"] == "json":
        m = c["m"]
        for i in range(len(m)):
            yield dict(c, m=m[:i] + m[i + 1:])
            k, vs = m[i]
            for j in range(len(vs)):
                yield dict(c, m=m[:i] + [[k, vs[:j] + vs[j + 1:]]] + m[i + 1:])
                for t in range(len(vs[j])):
                    yield dict(c, m=m[:i] + [[k, vs[:j] + [vs[j][:t] + vs[j][t + 1:]] + vs[j + 1:]]] + m[i + 1:])
            for t in range(len(k)):
                if len(k) > 1:
                    yield dict(c, m=m[:i] + [[k[:t] + k[t + 1:], vs]] + m[i + 1:])
    elif c["k"] == "jtext":
        t = c["t"]
        for i in range(len(t)):
            yield dict(c, t=t[:i] + t[i + 1:])
    elif c["k"] == "merge":
        for key in ("a1", "a2"):
            m = c[key]
            for i in range(len(m)):
                yield dict(c, **{key: m[:i] + m[i + 1:]})
                k, vs = m[i]
                for j in range(len(vs)):
                    yield dict(c, **{key: m[:i] + [[k, vs[:j] + vs[j + 1:]]] + m[i + 1:]})


def pv(v):
    """Python value -> observable"""
    if isinstance(v, str):
        return ["s", v]
    if isinstance(v, list) and all(isinstance(x, str) for x in v):
        return ["l", list(v)]
    if isinstance(v, tuple) and all(isinstance(x, str) for x in v):
        return ["t", list(v)]
    return None


def fdesc_feature(f):
    from gffutils.feature import Feature
    from gffutils.attributes import Attributes
    a = Attributes()
    for k, vs in f["m"]:
        a[k] = list(vs)
    D = G.canon_dialect(f["st"], f["m"])
    if D is None:
        from gffutils import constants
        D = dict(constants.dialect, order=list(constants.dialect["order"]))
    conv = lambda v: "." if v is None else v
    col = f["cols"]
    return Feature(seqid=col[0], source=col[1], featuretype=col[2], start=conv(f["s"]), end=conv(f["e"]), score=col[3],
                   strand=col[4], frame=col[5], attributes=a, extra=list(f["extras"]), dialect=D, keep_order=f["keep_order"],
                   sort_attribute_values=f["sort"]), D


def run_impl(c):
    from gffutils import constants, helpers
    from gffutils.attributes import Attributes
    from gffutils.feature import Feature
    if c["k"] == "ops":
        f = Feature()
        for k, v, via in c["ops"]:
            val = v[1] if v[0] == "s" else (list(v[1]) if v[0] == "l" else tuple(v[1]))
            if via is True or via == "feature":
                f[k] = val
            elif via is False or via == "attrs":
                f.attributes[k] = val
            elif via == "setdefault":
                f.attributes.setdefault(k, val)
            elif via == "update":
                f.attributes.update({k: val})
            elif via == "ctor":
                old = list(f.attributes._d.items())
                f.attributes = Attributes(old + [(k, val)])
            else:
                raise ValueError(via)
        reads = []
        keys = []
        for k, _, _ in c["ops"]:
            if k not in keys:
                keys.append(k)
        for k in keys + [c["absent"]]:
            r = []
            for always in (True, False):
                constants.always_return_list = always
                try:
                    o = pv(f.attributes[k] if always else f[k])
                    # every way of reading shows the same view: items(), values(), get()
                    if k in f.attributes._d:
                        ks = list(f.attributes.keys())
                        seen = [dict(f.attributes.items())[k], list(f.attributes.values())[ks.index(k)], f.attributes.get(k)]
                        if any(pv(x) != o for x in seen):
                            o = None
                    r.append(["ok", o] if o is not None else ["err", "Other"])
                except Exception as ex:
                    r.append(["err", L.err_class(ex)])
                finally:
                    constants.always_return_list = True
            reads.append([k] + r)
        kinds = []
        for k, v in f.attributes._d.items():
            o = pv(v)
            kinds.append([k, o if o is not None and o[0] != "s" else ["l", ["<not a sequence>"]]])
        # the switch changes how one-item lists are VIEWED - nothing else: the printed line is the same under both settings
        try:
            constants.always_return_list = True
            line_on = str(f)
            constants.always_return_list = False
            line_off = str(f)
        except Exception as ex:
            line_on, line_off = "on", "raised %s" % L.err_class(ex)
        finally:
            constants.always_return_list = True
        if line_on != line_off:
            kinds.append(["<printed line differs with always_return_list=False>", ["l", [line_on, line_off]]])
        return {"reads": reads, "kinds": kinds}
    if c["k"] == "json":
        a = Attributes()
        for k, vs in c["m"]:
            a[k] = list(vs)
        try:
            text = helpers._jsonify(a)
            # the stored text is decoded afresh each time: editing a decoded mapping in place does not reach the next decode
            first = helpers._unjsonify(text, isattributes=True)
            for v in first._d.values():
                if isinstance(v, list):
                    v.append("edited in place")
            first["added key"] = ["x"]
            b = helpers._unjsonify(text, isattributes=True)
            # a Feature built from the stored text (as a database hands it out), edited in place, serialises what it now holds
            from gffutils.feature import Feature as _F
            fdb = _F(attributes=text)
            for v in fdb.attributes._d.values():
                if isinstance(v, list):
                    v.append("edited in place")
            again = helpers._unjsonify(helpers._jsonify(fdb.attributes), isattributes=True)
            if dict(again._d) != dict(fdb.attributes._d):
                return {"text": text if isinstance(text, str) else "<not a str>", "back": ["err", "Other"]}
            ok = isinstance(text, str) and all(isinstance(k, str) and isinstance(v, list) and all(isinstance(x, str) for x in v)
                                               for k, v in b._d.items())
            return {"text": text if isinstance(text, str) else "<not a str>",
                    "back": ["ok", [[k, list(v)] for k, v in b._d.items()]] if ok else ["err", "Other"]}
        except Exception as ex:
            return {"text": "<raised>", "back": ["err", L.err_class(ex)]}
    if c["k"] == "jtext":
        try:
            first = helpers._unjsonify(c["t"], isattributes=True)
            for v in first._d.values():
                if isinstance(v, list):
                    v.append("edited in place")
            b = helpers._unjsonify(c["t"], isattributes=True)
            ok = all(isinstance(k, str) and isinstance(v, list) and all(isinstance(x, str) for x in v) for k, v in b._d.items())
            return {"back": ["ok", [[k, list(v)] for k, v in b._d.items()]] if ok else ["err", "Other"]}
        except Exception as ex:
            return {"back": ["err", "Other"]}
    if c["k"] == "merge":
        a1, a2 = Attributes(), Attributes()
        for k, vs in c["a1"]:
            a1[k] = list(vs)
        for k, vs in c["a2"]:
            a2[k] = list(vs)
        b1, b2 = copy.deepcopy(a1._d), copy.deepcopy(a2._d)
        try:
            m = helpers.merge_attributes(a1, a2, numeric_sort=c["numeric"])
            items = list(m.items()) if isinstance(m, dict) else list(m._d.items())
            ok = all(isinstance(k, str) and isinstance(v, list) and all(isinstance(x, str) for x in v) for k, v in items)
            res = ["ok", [[k, list(v)] for k, v in items]] if ok else ["err", "Other"]
        except Exception as ex:
            res = ["err", L.err_class(ex)]
        # ... the same answer under the other setting of always_return_list (the switch only changes a view)
        from gffutils import constants
        constants.always_return_list = False
        try:
            m2 = helpers.merge_attributes(a1, a2, numeric_sort=c["numeric"])
            items2 = list(m2.items()) if isinstance(m2, dict) else list(m2._d.items())
            res2 = ["ok", [[k, list(v) if isinstance(v, (list, tuple)) else v] for k, v in items2]]
        except Exception as ex:
            res2 = ["err", L.err_class(ex)]
        finally:
            constants.always_return_list = True
        if res2 != res and res[0] == "ok":
            res = ["err", "Other"]
        return {"m": res, "unchanged": a1._d == b1 and a2._d == b2 and list(a1._d) == list(b1) and list(a2._d) == list(b2)}
    f, Df = fdesc_feature(c["f"])
    g, Dg = fdesc_feature(c["g"])
    # equal Features hash alike also after in-place edits: a second copy of f is hashed, then both copies get the same
    # edits through the attributes mapping / Feature[...] / the extra list, and only then is the first one hashed
    f2, _ = fdesc_feature(c["f"])
    f3, _ = fdesc_feature(c["f"])
    edit_ok = True
    try:
        hash(f3)
        for x in (f2, f3):
            x.attributes["zz_edit"] = ["1"]
            x["zz_item"] = "2"
            ks = [k for k in x.attributes.keys() if k not in ("zz_edit", "zz_item")]
            if ks:
                x.attributes[ks[0]].append("more")
            x.extra.append("xtra")
        edit_ok = (f2 == f3) and str(f2) == str(f3) and hash(f2) == hash(f3) and hash(f3) == hash(str(f3))
    except Exception:
        edit_ok = False
    return {"eq": bool(f == g) and not bool(f != g), "streq": str(f) == str(g), "hasheq": hash(f) == hash(g), "Df": Df, "Dg": Dg,
            "edit_ok": edit_ok}


def coq_pv(o):
    return {"s": lambda v: "(VStr %s)" % L.s(v), "l": lambda v: "(VList %s)" % L.ss(v), "t": lambda v: "(VTuple %s)" % L.ss(v)}[o[0]](o[1])


def coq_fd(f, D):
    col = f["cols"]
    oz = lambda v: L.opt(v, L.z, "Z")
    return "(FD %s %s %s %s %s %s %s %s %s %s %s %s %s)" % (G.coq_dialect(D), L.s(col[0]), L.s(col[1]), L.s(col[2]), oz(f["s"]), oz(f["e"]),
                                                          L.s(col[3]), L.s(col[4]), L.s(col[5]), G.coq_attrs(f["m"]), L.ss(f["extras"]),
                                                          L.b(f["keep_order"]), L.b(f["sort"]))


def coq_case(c, o):
    if c["k"] == "ops":
        ops = L.lst(["(%s, (%s, %s))" % (L.b(via == "setdefault"), L.s(k), coq_pv(v)) for k, v, via in c["ops"]],
                    "(bool * (str * pyval))")
        reads = L.lst(["(Rd %s %s %s)" % (L.s(k), L.res(a, coq_pv), L.res(b, coq_pv)) for k, a, b in o["reads"]], "read")
        kinds = L.lst(["(%s, %s)" % (L.s(k), "(SList %s)" % L.ss(v[1]) if v[0] == "l" else "(STuple %s)" % L.ss(v[1])) for k, v in o["kinds"]],
                      "(str * stored)")
        return "COps %s %s %s" % (ops, reads, kinds)
    if c["k"] == "json":
        return "CJson %s %s %s" % (G.coq_attrs(c["m"]), L.s(o["text"]), L.res(o["back"], G.coq_attrs))
    if c["k"] == "jtext":
        return "CJsonText %s %s" % (L.s(c["t"]), L.res(o["back"], G.coq_attrs))
    if c["k"] == "merge":
        return "CMergeA %s %s %s %s %s" % (L.b(c["numeric"]), G.coq_attrs(c["a1"]), G.coq_attrs(c["a2"]), L.res(o["m"], G.coq_attrs),
                                           L.b(o["unchanged"]))
    return "CEq %s %s %s %s %s %s" % (coq_fd(c["f"], o["Df"]), coq_fd(c["g"], o["Dg"]), L.b(o["eq"]), L.b(o["streq"]), L.b(o["hasheq"]),
                                      L.b(o.get("edit_ok", True)))


def labels(c, o):
    yield "kind=" + c["k"]
    if c["k"] == "merge":
        yield "merge/numeric=%s/%s" % (c["numeric"], o["m"][0])
    if c["k"] == "eq":
        yield "eq=%s" % o["eq"]
    if c["k"] == "json":
        yield "json/keys=%d" % len(c["m"])
        if any(0xD800 <= ord(ch) <= 0xDFFF for k, vs in c["m"] for x in [k] + vs for ch in x):
            yield "json/has-surrogate-code-point"
        if any(ord(ch) > 0xFFFF for k, vs in c["m"] for x in [k] + vs for ch in x):
            yield "json/has-astral"
    if c["k"] == "jtext":
        yield "jtext/decoded=" + o["back"][0]


def nontrivial_key(c, o):
    if c["k"] == "ops":
        return ("ops", tuple((k, v[0], len(v[1]) if v[0] != "s" else -1) for k, v, _ in c["ops"][:4]))
    if c["k"] == "json" and c["m"]:
        return ("json", len(c["m"]), sum(len(vs) for _, vs in c["m"]))
    if c["k"] == "jtext" and o["back"][0] == "ok" and o["back"][1]:
        return ("jtext", c["t"][:12])
    if c["k"] == "merge" and c["a1"] and c["a2"]:
        shared = len(set(k for k, _ in c["a1"]) & set(k for k, _ in c["a2"]))
        return ("merge", c["numeric"], shared, len(c["a1"]), len(c["a2"]))
    if c["k"] == "eq":
        return ("eq", o["eq"], o["streq"])
    return None


def explain(c, o):
    return ("attribute container / JSON storage form / merge_attributes / Feature equality deviates: values not kept as "
            "sequences, switch changes more than the view of one-item lists, JSON round trip not the identity, merged values not "
            "the sorted duplicate-free union or arguments modified, or == disagrees with printed lines / hash")
