"""C13 — all input forms are equivalent and dialect peeking never consumes data."""
import gzip
import itertools
import os
import contextlib
import shutil
import tempfile
import coqlit as L

COQ_CORR = "Corr.C13"
GEN_DEPS = ["GenConst.v"]
SHARD = 120
RULE = ("annotations of 1-9 simple GFF3 lines supplied as path, gzip path, string (from_string), list of Features, "
        "generator, iter(list), map object, itertools.chain, DataIterator and FeatureDB, for every checklines in 0..n+2, "
        "with no transform, identity, a stateful 'drop every second call', 'return None for flagged', 'return a falsy "
        "non-None value for flagged' and a renaming transform (call counts recorded); both DataIterator iteration and "
        "create_db; _FeatureIterator.peek on lists and one-shot iterators for all (n, length) up to 8; inspect() with limits "
        "0/None/1..n+1.  non-trivial = one-shot form with checklines < n; distinct by (form, checklines vs n, transform)")
ASSUMPTIONS = ["lines are simple nine-column GFF3 lines (parse/print fidelity is C07's subject)"]
FORMS = ["path", "gz", "string", "list", "genexp", "genfn", "iter", "map", "chain", "dataiter", "db"]
TFORMS = ["none", "identity", "drop_even_calls", "drop_flagged", "rename", "falsy"]
TCOQ = {"none": "TNone", "identity": "TIdentity", "drop_even_calls": "TDropEvenCalls", "drop_flagged": "TDropFlagged",
        "rename": "TRename", "falsy": "TFalsy"}


def gen_items(rng, n):
    items = []
    for i in range(n):
        t = rng.choice(["gene", "exon", "exon", "CDS"])
        chrom = rng.choice(["chr1", "chr1", "chr2"])
        s = rng.randrange(1, 500)
        keys = ["ID"] + (["Name"] if rng.random() < 0.5 else []) + (["Parent"] if rng.random() < 0.4 else [])
        attrs = ";".join("%s=%s%d" % (k, k[0].lower(), i) if k != "Parent" else "Parent=i0" for k in keys)
        if rng.random() < 0.3:
            # characters str.splitlines() treats as line boundaries but text files do not (and that are printed raw)
            keys = keys + ["Note"]
            attrs += ";Note=a%sb" % rng.choice(["\x85", "\u2028", "\u2029", "\u2028\x85"])
        elif rng.random() < 0.3:
            # a comma followed by a blank: dialect inference and the given-dialect path must split it alike
            keys = keys + ["Note"]
            attrs += ";Note=binds DNA, RNA%d" % i
        attrs += ";"              # (see mix_trailing below: some lines lose it again)
        items.append({"line": "\t".join([chrom, "src", t, str(s), str(s + rng.randrange(0, 50)), ".", rng.choice("+-"), ".", attrs]),
                      "id": "i%d" % i, "flag": s % 2 == 1, "type": t, "chrom": chrom, "keys": keys})
    if rng.random() < 0.5:
        mix_trailing(rng, items)
    else:
        for it in items:
            it["line"] = it["line"][:-1]
    for it in items:
        f = it["line"].split("\t")
        f[1] = "renamed"
        it["renamed"] = "\t".join(f)
    return items


def trailing_ok(items):
    """in every prefix the lines that end their attribute column with ';' outweigh (by attribute count, ties to the first
    line) those that do not: whatever the window, the chosen dialect has the trailing semicolon, and every form prints every
    line with it (when the vote goes the other way the file parser and the per-line parser read a later '...;' line
    differently - an empty last key or none - which is outside what the forms have in common)"""
    wt = wf = 0
    for i, it in enumerate(items):
        w = len(it["keys"])
        if it["line"].endswith(";"):
            wt += w
        else:
            wf += w
        if wf and (i == 0 or wf > wt):
            return False
    return True


def mix_trailing(rng, items):
    wt = wf = 0
    for i, it in enumerate(items):
        w = len(it["keys"])
        if i > 0 and wf + w <= wt and rng.random() < 0.6:
            it["line"] = it["line"][:-1]
            wf += w
        else:
            wt += w


def gen_cases(rng, tier):
    cases = []
    n_ann = 25 if tier == "quick" else 300
    for a in range(n_ann):
        n = rng.choice([1, 2, 3, 5, 9])
        items = gen_items(rng, n)
        for cl in sorted(set([0, 1, n - 1, n, n + 2, rng.randrange(0, n + 3)])):
            if cl < 0:
                continue
            for t in TFORMS if (a + cl) % 2 == 0 else ["none", rng.choice(TFORMS[1:])]:
                cases.append({"k": "forms", "items": items, "checklines": cl, "t": t})
    for n in range(0, 9):
        for ln in range(0, 9):
            for one_shot in (True, False):
                cases.append({"k": "peek", "n": n, "len": ln, "one_shot": one_shot})
    for a in range(60 if tier == "quick" else 600):
        n = rng.choice([1, 2, 4, 7, 12])
        items = gen_items(rng, n)
        cases.append({"k": "inspect", "items": items, "limit": rng.choice([None, 0, 1, 2, n, n + 1])})
    return cases


def valid_case(c):
    try:
        if c["k"] == "forms":
            return bool(c["items"]) and c["t"] in TFORMS and c["checklines"] >= 0 and len(set(i["id"] for i in c["items"])) == len(c["items"]) \
                and (trailing_ok(c["items"]) or not any(i["line"].endswith(";") for i in c["items"]))
        if c["k"] == "peek":
            return c["n"] >= 0 and c["len"] >= 0
        if c["k"] == "inspect":
            return bool(c["items"]) and (c["limit"] is None or c["limit"] >= 0)
        return False
    except Exception:
        return False


def shrinks(c):
    if c["k"] in ("forms", "inspect"):
        its = c["items"]
        for i in range(len(its)):
            if len(its) > 1:
                yield dict(c, items=its[:i] + its[i + 1:])
    if c["k"] == "forms":
        if c["checklines"] > 0:
            yield dict(c, checklines=c["checklines"] - 1)
        if c["t"] != "none":
            yield dict(c, t="none")


class Counter:
    def __init__(self, kind, flags):
        self.kind, self.calls, self.flags = kind, 0, flags

    def __call__(self, f):
        i = self.calls
        self.calls += 1
        k = self.kind
        if k == "identity":
            return f
        if k == "drop_even_calls":
            return f if i % 2 == 0 else False
        if k == "drop_flagged":
            return None if f.start % 2 == 1 else f
        if k == "falsy":
            return [None, "", 0, [], False][i % 5] if f.start % 2 == 1 else f
        if k == "rename":
            f.source = "renamed"
            return f
        raise ValueError(k)


def make_form(form, path, gzpath, text, c):
    import gffutils
    from gffutils import iterators
    if form == "path":
        return path, {}
    if form == "gz":
        return gzpath, {}
    if form == "string":
        return text, {"from_string": True}
    # ready-made Feature objects, each parsed on its own (and so carrying the dialect of its own line)
    from gffutils.feature import feature_from_line
    feats = [feature_from_line(i["line"]) for i in c["items"]]
    if any(", " in i["line"] for i in c["items"]):
        # 'a, b' values: the inferring parser keeps them whole, the given-dialect parser splits them (upstream #198/#208) -
        # two readings of one text, so here the objects are the ones the file parser makes
        feats = list(iterators.DataIterator(path, checklines=c["checklines"]))
    if form == "list":
        return feats, {}
    if form == "genexp":
        return (f for f in feats), {}
    if form == "genfn":
        def g():
            for f in feats:
                yield f
        return g(), {}
    if form == "iter":
        return iter(feats), {}
    if form == "map":
        return map(lambda f: f, feats), {}
    if form == "chain":
        return itertools.chain(feats[:1], feats[1:]), {}
    if form == "dataiter":
        return iterators.DataIterator(path, checklines=c["checklines"]), {}
    if form == "db":
        return gffutils.create_db(path, ":memory:", checklines=c["checklines"]), {}
    raise ValueError(form)


SHARED = ["chr1\tsrc\tgene\t1\t900\t.\t+\t.\tID=g1", "chr1\tsrc\tmRNA\t1\t900\t.\t+\t.\tID=m1;Parent=g1",
          "chr1\tsrc\texon\t1\t100\t.\t+\t.\tParent=m1", "chr1\tsrc\tCDS\t10\t90\t.\t+\t0\tParent=m1",
          "chr1\tsrc\texon\t300\t400\t.\t+\t.\tParent=m1", "chr1\tsrc\texon\t600\t900\t.\t+\t.\tParent=m1"]


def shared_column_scenario(d, checklines):
    from gffutils import iterators
    from gffutils.feature import feature_from_line

    def tag(f):
        f.attributes.setdefault("seen", []).append("%s:%s" % (f.featuretype, f.start))
        return f
    path = os.path.join(d, "shared.gff")
    with open(path, "w") as fh:
        fh.write("\n".join(SHARED) + "\n")
    want = None
    for data, kw in ((path, {}), ("\n".join(SHARED) + "\n", {"from_string": True}), ([feature_from_line(l) for l in SHARED], {}),
                     ((feature_from_line(l) for l in SHARED), {})):
        got = [str(f) for f in iterators.DataIterator(data, checklines=checklines, transform=tag, **kw)]
        if want is None:
            want = got
        elif got != want:
            return False
    return len(want) == len(SHARED) and all(x.count("seen=") == 1 and "," not in x.split("seen=")[1] for x in want)


def run_impl(c):
    import gffutils
    from gffutils import iterators
    if c["k"] == "peek":
        l = list(range(c["len"]))
        data = iter(l) if c["one_shot"] else l
        it = iterators._FeatureIterator.__new__(iterators._FeatureIterator)
        it.data = data
        try:
            p = it.peek(c["n"])
            rest = list(it.data)
            return {"peeked": ["ok", list(p)], "rest": ["ok", rest]}
        except Exception as ex:
            return {"peeked": ["err", L.err_class(ex)], "rest": ["err", L.err_class(ex)]}
    d = tempfile.mkdtemp(prefix="c13")
    try:
        text = "\n".join(i["line"] for i in c["items"]) + "\n"
        if c["k"] == "forms" and (len(c["items"]) + c["checklines"]) % 4 == 1:
            # written on another system: CRLF line ends, a header directive and blank lines - still the same features, in every form
            text = "##gff-version 3\r\n" + "\r\n".join(i["line"] for i in c["items"]) + "\r\n\r\n"
        path = os.path.join(d, "a.gff")
        with open(path, "w", newline="") as fh:
            fh.write(text)
        if c["k"] == "inspect":
            from gffutils import inspect as insp
            try:
                r = insp.inspect(path, limit=c["limit"], verbose=False)
                srt = lambda dct: sorted([k, v] for k, v in dct.items())
                # the same answers whatever the input form (path, FeatureDB) and whichever subset of look_for is asked
                import gffutils as _g
                dbv = _g.create_db(path, ":memory:", id_spec="no_such_key_zz", merge_strategy="create_unique", verbose=False)
                for data, kw in ((path, {}), (dbv, {})):
                    for lf in (None, ["featuretype"], ["feature_count"], ["featuretype", "feature_count"], ["chrom", "attribute_keys"], []):
                        kw2 = dict(kw)
                        if lf is not None:
                            kw2["look_for"] = lf
                        r2 = insp.inspect(data, limit=c["limit"], verbose=False, **kw2)
                        for key in (lf if lf is not None else ["featuretype", "chrom", "attribute_keys", "feature_count"]):
                            if r2[key] != r[key]:
                                raise ValueError("inspect(%s, look_for=%r)[%s] = %r, the default path form gives %r" % (
                                    type(data).__name__, lf, key, r2[key], r[key]))
                return {"count": ["ok", r["feature_count"]], "ftypes": ["ok", srt(r["featuretype"])], "chroms": ["ok", srt(r["chrom"])],
                        "keys": ["ok", srt(r["attribute_keys"])]}
            except Exception as ex:
                e = ["err", L.err_class(ex)]
                return {"count": e, "ftypes": e, "chroms": e, "keys": e}
        gzpath = os.path.join(d, "a.gff.gz")
        with gzip.open(gzpath, "wb") as fh:
            fh.write(text.encode("utf-8"))
        flags = [i["flag"] for i in c["items"]]
        obs = []
        for form in FORMS:
            o = {"form": form}
            tr = None if c["t"] == "none" else Counter(c["t"], flags)
            try:
                data, kw = make_form(form, path, gzpath, text, c)
                if form == "dataiter":
                    data.transform = tr
                    it = data
                else:
                    it = iterators.DataIterator(data, checklines=c["checklines"], transform=tr, **kw)
                feats_seen = list(it)
                o["seq"] = ["ok", [str(f) for f in feats_seen]]
                o["_attrs"] = [[[k, list(v)] for k, v in f.attributes._d.items()] for f in feats_seen]
            except Exception as ex:
                o["seq"] = ["err", L.err_class(ex)]
            o["calls"] = tr.calls if tr else 0
            tr2 = None if c["t"] == "none" else Counter(c["t"], flags)
            # with progress reporting on in half of the cases: a transform is still applied once per feature
            verbose = (c["checklines"] + len(c["items"])) % 2 == 0
            try:
                data, kw = make_form(form, path, gzpath, text, c)
                with open(os.devnull, "w") as sink, contextlib.redirect_stderr(sink), contextlib.redirect_stdout(sink):
                    if form == "dataiter":
                        data.transform = tr2
                        db = gffutils.create_db(data, ":memory:", checklines=c["checklines"], verbose=verbose)
                    else:
                        db = gffutils.create_db(data, ":memory:", checklines=c["checklines"], transform=tr2, verbose=verbose, **kw)
                o["db"] = ["ok", [r[0] for r in db.conn.execute("SELECT id FROM features ORDER BY rowid")]]
                if tr2 is not None and tr2.calls != (tr.calls if tr else 0) and o["seq"][0] == "ok":
                    o["db"] = ["err", "Other"]          # create_db called the transform a different number of times than iteration does
            except Exception as ex:
                o["db"] = ["err", L.err_class(ex)]
            obs.append(o)
        # lines that share their attribute column, and a transform that edits the attributes it is given in place: every line
        # is still a feature of its own, in every form
        if not shared_column_scenario(d, c["checklines"]):
            obs[0]["seq"] = ["err", "Other"]
        # "the same sequence of Features": not only the printed lines but the attribute mappings agree across input forms
        base = next((o["_attrs"] for o in obs if "_attrs" in o), None)
        for o in obs:
            if "_attrs" in o and o["_attrs"] != base and o["seq"][0] == "ok":
                o["seq"] = ["err", "Other"]
            o.pop("_attrs", None)
        return {"obs": obs}
    finally:
        shutil.rmtree(d, ignore_errors=True)


def coq_items(items):
    base = lambda l: l[:-1] if l.endswith(";") else l
    return L.lst(["(mkIt %s %s %s %s %s %s %s %s)" % (L.s(base(i["line"])), L.s(i["id"]), L.b(i["flag"]), L.s(base(i["renamed"])), L.s(i["type"]),
                                                   L.s(i["chrom"]), L.ss(i["keys"]), L.b(i["line"].endswith(";"))) for i in items], "it")


def coq_case(c, o):
    if c["k"] == "peek":
        f = lambda r: L.res(r, L.zs)
        return "CPeek %d%%nat %d%%nat %s %s %s" % (c["n"], c["len"], L.b(c["one_shot"]), f(o["peeked"]), f(o["rest"]))
    if c["k"] == "inspect":
        kv = lambda r: L.res(r, lambda l: L.lst(["(%s, %s)" % (L.s(k), L.z(v)) for k, v in l], "(str * Z)"))
        lim = "(@None nat)" if c["limit"] is None else "(Some %d%%nat)" % c["limit"]
        return "CInspect %s %s %s %s %s %s" % (coq_items(c["items"]), lim, L.res(o["count"], L.z), kv(o["ftypes"]), kv(o["chroms"]), kv(o["keys"]))
    obs = L.lst(["(FObs %s %s %s %s)" % (L.s(x["form"]), L.res(x["seq"], L.ss), L.z(x["calls"]), L.res(x["db"], L.ss)) for x in o["obs"]], "fobs")
    return "CForms %s %d%%nat %s %s" % (coq_items(c["items"]), c["checklines"], TCOQ[c["t"]], obs)


def labels(c, o):
    yield "kind=" + c["k"]
    if c["k"] == "forms":
        n = len(c["items"])
        yield "checklines-%s-n" % ("below" if c["checklines"] < n - 1 else ("at" if c["checklines"] in (n - 1, n) else "above"))
        yield "transform=" + c["t"]
        for x in o["obs"]:
            if x["seq"][0] != "ok":
                yield "form-%s-ERR-%s" % (x["form"], x["seq"][1])
    if c["k"] == "peek":
        yield "peek/one_shot=%s" % c["one_shot"]
    if c["k"] == "inspect":
        yield "inspect/limit=%s" % ("none" if c["limit"] is None else min(c["limit"], 3))


def nontrivial_key(c, o):
    if c["k"] == "forms" and c["checklines"] < len(c["items"]):
        return ("forms", len(c["items"]), c["checklines"], c["t"])
    if c["k"] == "peek" and c["one_shot"] and c["n"] < c["len"]:
        return ("peek", c["n"], c["len"])
    if c["k"] == "inspect":
        return ("inspect", len(c["items"]), c["limit"])
    return None


def explain(c, o):
    return ("an input form yields a different feature sequence / database than the file itself, peeking lost, duplicated or "
            "reordered items of a one-shot iterator, the transform was not applied exactly once per feature or the wrong "
            "features were skipped, or inspect() counts are off")
