"""C14 — directives are all kept in order; comments, blanks and FASTA are not features."""
import itertools
import os
import zlib
import shutil
import tempfile
import coqlit as L

COQ_CORR = "Corr.C14"
GEN_DEPS = ["GenConst.v"]
SHARD = 300
RULE = ("files as interleavings of directive ('##x', '###', '##', '## spaced'), comment ('#c', '#'), blank, feature, '##FASTA', "
        "'>header' and sequence lines: every interleaving up to length 5 (quick) / 6 (thorough) over a 7-kind alphabet, plus "
        "long random files with directives below and above the inspection window; checklines in {0,1,2,10}; '\\n' and "
        "'\\r\\n' line ends, with and without a final newline; read from a path and from a string; observed: the features "
        "iterated, DataIterator.directives after iteration and right after construction, db.directives after create_db, "
        "after reopening the file, and the stored feature count.  non-trivial = file with a directive after the first "
        "feature; distinct by the sequence of line kinds")
ASSUMPTIONS = ["feature lines are simple nine-column lines whose printed form equals the line (parsing fidelity is C07/C01's subject)"]

KINDS = ["D", "E", "C", "B", "F", "X", "G"]     # directive, odd directive, comment, blank, feature, ##FASTA, >header


def render(kinds, rng=None):
    out = []
    nf = nd = nc = 0
    comments = ["#comment", "#", "#!genome-build GRCh38", "#!", "# #", "#\t", "# ##not a directive", "#!!doubled", "#>x", "#FASTA",
                "#a\x0b##not-a-directive", "#a\x0c>x", "#a\u2028##x", "#a\x85b", "#a\x1c>seq"]
    odd = ["###", "##", "## spaced out", "###!x", "##gff-version 3", "##FASTA-index genome.fa.fai", "##FASTAfile x", "##FASTA ",
           "##species a\x0bb", "##note x\u2028>y", "##k\x0c##v", "###", "##gff-version 3", "##tail\x1d"]
    for k in kinds:
        if k == "D":
            nd += 1
            out.append("##directive %d" % nd)
        elif k == "E":
            nd += 1
            out.append(odd[nd % len(odd)])
        elif k == "C":
            nc += 1
            out.append(comments[(nc + nd + nf) % len(comments)])
        elif k == "B":
            out.append("")
        elif k == "F":
            nf += 1
            out.append("chr1\tsrc\tgene\t%d\t%d\t.\t+\t.\tID=g%d" % (nf, nf + 9, nf))
        elif k == "X":
            out.append("##FASTA")
        elif k == "G":
            out.append(">chr1 header")
        elif k == "S":
            out.append("ACGTACGT")
    return out


def gen_cases(rng, tier):
    cases = []
    maxlen = 5 if tier == "quick" else 6
    n = 0
    for ln in range(0, maxlen + 1):
        for kinds in itertools.product(KINDS, repeat=ln):
            n += 1
            if ln >= 5 and n % (3 if tier == "quick" else 5):
                continue
            cases.append({"lines": render(kinds), "checklines": [0, 1, 2, 10][n % 4], "eol": "\n" if n % 5 else "\r\n",
                          "final_eol": n % 3 != 0, "from_string": n % 2 == 0})
    nr = 300 if tier == "quick" else 5000
    for i in range(nr):
        kinds = [rng.choice("FFFFDDECB") for _ in range(rng.choice([8, 15, 30]))]
        if rng.random() < 0.5:
            kinds += [rng.choice("XG")] + [rng.choice("SSDFC") for _ in range(rng.choice([1, 3]))]
        cases.append({"lines": render(kinds), "checklines": rng.choice([0, 1, 2, 5, 10, 40]), "eol": rng.choice(["\n", "\n", "\r\n"]),
                      "final_eol": rng.random() < 0.8, "from_string": rng.random() < 0.5})
    return cases


def valid_case(c):
    try:
        return all(isinstance(l, str) and "\n" not in l and "\r" not in l and not l[:1].isspace() for l in c["lines"]) \
            and c["eol"] in ("\n", "\r\n") and isinstance(c["checklines"], int) and c["checklines"] >= 0
    except Exception:
        return False


def shrinks(c):
    ls = c["lines"]
    for i in range(len(ls)):
        yield dict(c, lines=ls[:i] + ls[i + 1:])
    if c["checklines"] > 0:
        yield dict(c, checklines=c["checklines"] - 1)
    if c["eol"] != "\n":
        yield dict(c, eol="\n")
    if c["from_string"]:
        yield dict(c, from_string=False)


def text_of(c):
    t = c["eol"].join(c["lines"])
    if c["final_eol"] and c["lines"]:
        t += c["eol"]
    return t


DECOY = "##decoy-one\nchrD\tsrc\tgene\t1\t9\t.\t+\t.\tID=d1\n##decoy-two\nchrD\tsrc\tgene\t11\t19\t.\t+\t.\tID=d2\n#c\nchrD\tsrc\tgene\t21\t29\t.\t+\t.\tID=d3\n"


def run_impl(c):
    import gffutils
    from gffutils import iterators
    text = text_of(c)
    d = tempfile.mkdtemp(prefix="c14")
    out = {}
    try:
        if c["from_string"]:
            data, kw = text, {"from_string": True}
        else:
            data = os.path.join(d, "in.gff")
            with open(data, "w", newline="") as fh:
                fh.write(text)
            kw = {}
            if zlib.crc32(text.encode("utf-8", "surrogatepass")) % 4 == 1:
                # the same bytes gzipped (read in binary mode by the library): line ends, CRLF included, are still line ends
                import gzip
                data = os.path.join(d, "in.gff.gz")
                with gzip.open(data, "wb") as fh:
                    fh.write(text.encode("utf-8", "surrogatepass"))
        # every third case: a second iterator over another annotation is alive and advancing while this one is read, and
        # create_db's transform reads that other annotation too - the directives of an input are its own
        busy = zlib.crc32(text.encode("utf-8", "surrogatepass")) % 3 == 0
        try:
            decoy = iter(iterators.DataIterator(DECOY, from_string=True)) if busy else None
            it = iterators.DataIterator(data, checklines=c["checklines"], **kw)
            out["peek_dirs"] = ["ok", list(it.directives)]
            feats = []
            for f in it:
                feats.append(str(f))
                if decoy is not None:
                    next(decoy, None)
            if decoy is not None:
                list(decoy)
            out["iter_feats"] = ["ok", feats]
            out["iter_dirs"] = ["ok", list(it.directives)]
        except Exception as ex:
            e = ["err", L.err_class(ex)]
            out.setdefault("peek_dirs", e)
            out.setdefault("iter_feats", e)
            out.setdefault("iter_dirs", e)
        dbfn = os.path.join(d, "out.db")
        try:
            seen = []
            def look_aside(f):
                if not seen:
                    seen.append(len(list(iterators.DataIterator(DECOY, from_string=True))))
                return f
            db = gffutils.create_db(data, dbfn, checklines=c["checklines"], transform=look_aside if busy else None, **kw)
            out["db_dirs"] = ["ok", list(db.directives)]
            out["db_count"] = ["ok", db.count_features_of_type()]
            # a ready-made DataIterator handed to create_db together with a transform: the directives it has seen still arrive
            if busy:
                db4 = gffutils.create_db(iterators.DataIterator(data, checklines=c["checklines"], **kw), ":memory:",
                                         checklines=c["checklines"], transform=lambda f: f)
                if list(db4.directives) != list(db.directives):
                    out["db_dirs"] = ["ok", ["<DataIterator+transform>"] + list(db4.directives)]
            # the same import with the dialect re-examined on every line (force_dialect_check; the importer is named, since
            # there is then no file-wide dialect to choose it by): all directives again
            if busy:
                db3 = gffutils.create_db(data, ":memory:", checklines=c["checklines"], force_dialect_check=True, force_gff=True, **kw)
                if list(db3.directives) != list(db.directives):
                    out["db_dirs"] = ["ok", ["<force_dialect_check>"] + list(db3.directives)]
            # an update that is refused (the first stored feature once more, merge_strategy='error') leaves the directives alone
            first = next(iter(db.all_features()), None)
            if first is not None:
                try:
                    db.update([first], merge_strategy="error", make_backup=False)
                    out["db_count"] = ["err", "Other"]          # a duplicate key must be refused
                except ValueError:
                    pass
            del db
            db2 = gffutils.FeatureDB(dbfn)
            out["reopened_dirs"] = ["ok", list(db2.directives)]
        except Exception as ex:
            e = ["err", L.err_class(ex)]
            out.setdefault("db_dirs", e)
            out.setdefault("db_count", e)
            out.setdefault("reopened_dirs", e)
        for k in ("peek_dirs", "iter_feats", "iter_dirs", "db_dirs", "reopened_dirs"):
            if out[k][0] == "ok" and not all(isinstance(x, str) for x in out[k][1]):
                out[k] = ["err", "Other"]
        return out
    finally:
        shutil.rmtree(d, ignore_errors=True)


def coq_case(c, o):
    return "CFile %s %d%%nat %s %s %s %s %s %s" % (L.s(text_of(c)), c["checklines"], L.res(o["iter_feats"], L.ss), L.res(o["iter_dirs"], L.ss),
                                                L.res(o["peek_dirs"], L.ss), L.res(o["db_dirs"], L.ss), L.res(o["reopened_dirs"], L.ss),
                                                L.res(o["db_count"], L.z))


def kinds_of(c):
    out = []
    for l in c["lines"]:
        if l == "##FASTA" or l.startswith(">"):
            out.append("X")
        elif l.startswith("##"):
            out.append("D")
        elif l.startswith("#"):
            out.append("C")
        elif l == "":
            out.append("B")
        else:
            out.append("F")
    return "".join(out)


def labels(c, o):
    yield "checklines=%d" % c["checklines"]
    yield "input=" + ("string" if c["from_string"] else "path")
    yield "eol=" + ("LF" if c["eol"] == "\n" else "CRLF")
    k = kinds_of(c)
    yield "has-fasta" if "X" in k else "no-fasta"
    nf = 0
    late = False
    for ch in k:
        if ch == "X":
            break
        if ch == "F":
            nf += 1
        if ch == "D" and nf > c["checklines"]:
            late = True
    if late:
        yield "directive-beyond-inspection-window"
    yield "db=" + (o["db_dirs"][0] if o["db_dirs"][0] == "ok" else o["db_dirs"][1])


def nontrivial_key(c, o):
    k = kinds_of(c)
    if "F" in k and "D" in k[k.index("F"):]:
        return (k[:12], c["checklines"], c["from_string"])
    return None


def explain(c, o):
    return ("directives recorded by the iterator / stored by create_db / reported after reopening differ from 'every ## line "
            "before ##FASTA or a > header, without the ##, in file order', or comments/blank/FASTA lines produced features")
