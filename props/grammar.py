"""Generator of GFF3/GTF/GFF2 lines as data (style + columns + attributes + extras), an independent
renderer, and Gallina printers for them.  Shared by C01, C07, C08, C09."""
import coqlit as L

FSEPS = [";", "; ", " ; "]
KVS = ["eq", "spq", "spb"]          # key=value | key "value" | key value
TO_QUOTE = "\n\t\r%;=&," + "".join(chr(i) for i in range(32)) + chr(127)

# value alphabet: structural characters, reserved characters, unicode whitespace and letters
STRUCT = list(";=,%&\" \t\n\r")
UNI = ["é", " ", "\u0085", " ", "　", "\x7f", "\x01", "\U0001F600", "́"]
PLAIN = list("abcXYZ019_.-:/+|()")


def all_styles():
    out = []
    for kv in KVS:
        for fsep in FSEPS:
            for trailing in (False, True):
                for rep in (False, True):
                    out.append({"kv": kv, "fsep": fsep, "trailing": trailing, "repeated": rep})
    return out


def gen_key(rng, used):
    for _ in range(50):
        n = rng.choice([1, 2, 3, 6])
        k = "".join(rng.choice("abKZ_09gT") for _ in range(n))
        if rng.random() < 0.3:
            k = rng.choice(["ID", "Name", "Parent", "gene_id", "transcript_id", "Note", "Dbxref"])
        if k not in used:
            used.add(k)
            return k
    k = "k%d" % len(used)
    used.add(k)
    return k


def gen_value(rng, kv, adversarial=True):
    n = rng.choice([1, 1, 2, 3, 5, 9])
    pool = PLAIN * 3 + (STRUCT + UNI if adversarial else [])
    for _ in range(200):
        v = "".join(rng.choice(pool) for _ in range(n))
        if value_ok(kv, v):
            return v
    return "v"


def value_ok(kv, v):
    if not v or v[0].isspace() or v[-1].isspace():
        return False
    # CPython str.isspace differs from strip()'s whitespace on a few code points; use strip to be exact
    if v != v.strip():
        return False
    if kv == "spq":
        return not any(c in v for c in ';,"\t\n\r')
    if kv == "spb":
        return not any(c in TO_QUOTE or c == '"' for c in v)
    return True


def joined_not_quoted(kv, repeated, vs):
    if kv == "spq" or not vs:
        return True
    if repeated:
        return not any(v[0] == '"' and v[-1] == '"' for v in vs)
    return not (vs[0][0] == '"' and vs[-1][-1] == '"')


def gen_attrs(rng, st, nmax=6, adversarial=True):
    n = rng.choice([0, 1, 1, 2, 2, 3, 4, nmax])
    used = set()
    attrs = []
    for i in range(n):
        k = gen_key(rng, used)
        nv = rng.choice([1, 1, 1, 2, 3, 0])
        if nv == 0 and (i == 0 and st["kv"] == "eq"):
            nv = 1
        for _ in range(100):
            vs = [gen_value(rng, st["kv"], adversarial) for _ in range(nv)]
            if joined_not_quoted(st["kv"], st["repeated"], vs):
                break
        else:
            vs = ["v"] * nv
        attrs.append([k, vs])
    return attrs


def gen_coord(rng):
    r = rng.random()
    if r < 0.1:
        return None
    if r < 0.2:
        return rng.choice([0, 1, 536870912, 131072])
    return rng.randrange(1, 10 ** rng.choice([1, 3, 6, 9]))


def gen_col(rng):
    return rng.choice(["chr1", "chrX", ".", "src", "gene", "exon", "a b", "é", "x;y=z", "1", "+", "-", "0", "2"])


def gen_line(rng, st=None, adversarial=True):
    st = st or rng.choice(all_styles())
    s = gen_coord(rng)
    e = gen_coord(rng)
    cols = [gen_col(rng) for _ in range(6)]   # seqid source type score strand frame
    extras = []
    if rng.random() < 0.25:
        extras = [rng.choice(["x", "", "a b", "1;2", "é", "k=v"]) for _ in range(rng.choice([1, 2, 3]))]
    return {"st": st, "cols": cols, "s": s, "e": e, "attrs": gen_attrs(rng, st, adversarial=adversarial),
            "extras": extras}


def quote(v):
    return "".join("%%%02X" % ord(c) if c in TO_QUOTE else c for c in v)


def expand(st, attrs):
    items = []
    for k, vs in attrs:
        if st["repeated"] and len(vs) > 1:
            items.extend([k, [v]] for v in vs)
        else:
            items.append([k, vs])
    return items


def render_attrs(st, attrs):
    """independent renderer of the attribute column (not gffutils' _reconstruct)"""
    if not attrs:
        return ""
    parts = []
    for k, vs in expand(st, attrs):
        if st["kv"] == "eq":
            parts.append(k if not vs else k + "=" + ",".join(quote(v) for v in vs))
        elif st["kv"] == "spq":
            parts.append(k + ' "' + ",".join(vs) + '"')
        else:
            parts.append(k if not vs else k + " " + ",".join(vs))
    out = st["fsep"].join(parts)
    if st["trailing"]:
        out += ";"
    return out


def coord_str(c):
    return "." if c is None else str(c)


def render_line(ln):
    c = ln["cols"]
    fields = [c[0], c[1], c[2], coord_str(ln["s"]), coord_str(ln["e"]), c[3], c[4], c[5],
              render_attrs(ln["st"], ln["attrs"])]
    if ln["extras"]:
        fields.append("\t".join(ln["extras"]))
    return "\t".join(fields)


def canon_dialect(st, attrs):
    """the dialect a line of this style with these attributes must be reported as (for the Python side of C09)"""
    if not attrs:
        return None
    items = expand(st, attrs)
    quoted = st["kv"] == "spq"
    return {"leading semicolon": False, "trailing semicolon": st["trailing"], "quoted GFF2 values": quoted,
            "field separator": st["fsep"] if len(items) > 1 else ";",
            "keyval separator": "=" if st["kv"] == "eq" else " ", "multival separator": ",",
            "fmt": "gtf" if quoted else "gff3",
            "repeated keys": st["repeated"] and any(len(vs) > 1 for _, vs in attrs),
            "order": [k for k, _ in items]}


# ---------------------------------------------------------------- Gallina printers
def coq_attrs(attrs):
    return L.lst(["(%s, %s)" % (L.s(k), L.ss(vs)) for k, vs in attrs], "(str * list str)")


def coq_style(st):
    kv = {"eq": "KvEq", "spq": "KvSpaceQuoted", "spb": "KvSpaceBare"}[st["kv"]]
    return "(mkStyle %s %s %s %s)" % (kv, L.s(st["fsep"]), L.b(st["trailing"]), L.b(st["repeated"]))


def coq_dialect(d):
    return "(Dl %s %s %s %s %s %s %s %s %s)" % (
        L.b(d["leading semicolon"]), L.b(d["trailing semicolon"]), L.b(d["quoted GFF2 values"]),
        L.s(d["field separator"]), L.s(d["keyval separator"]), L.s(d["multival separator"]), L.s(d["fmt"]),
        L.b(d["repeated keys"]), L.ss(list(d["order"])))


def dialect_ok(d):
    """only dialect dicts of the shape the model represents"""
    try:
        return (all(isinstance(d[k], bool) for k in ("leading semicolon", "trailing semicolon", "quoted GFF2 values",
                                                      "repeated keys"))
                and all(isinstance(d[k], str) for k in ("field separator", "keyval separator", "multival separator", "fmt"))
                and all(isinstance(x, str) for x in d["order"]) and len(d) == 9)
    except Exception:
        return False


def feature_obs(f):
    """observables of a gffutils Feature (JSON-able)"""
    return {"cols": [f.seqid, f.source, f.featuretype, f.score, f.strand, f.frame], "s": f.start, "e": f.end,
            "attrs": [[k, list(f.attributes._d[k])] for k in f.attributes._d.keys()],
            "extra": list(f.extra), "dialect": dict(f.dialect, order=list(f.dialect["order"])), "str": str(f)}


def obs_ok(o):
    return (all(isinstance(c, str) for c in o["cols"]) and all(x is None or isinstance(x, int) for x in (o["s"], o["e"]))
            and all(isinstance(k, str) and all(isinstance(v, str) for v in vs) for k, vs in o["attrs"])
            and all(isinstance(x, str) for x in o["extra"]) and dialect_ok(o["dialect"]))


def coq_fobs(o):
    oz = lambda v: L.opt(v, L.z, "Z")
    return "(mkFobs %s %s %s %s %s %s %s)" % (L.ss(o["cols"]), oz(o["s"]), oz(o["e"]), coq_attrs(o["attrs"]),
                                              L.ss(o["extra"]), coq_dialect(o["dialect"]), L.s(o["str"]))
