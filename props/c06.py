"""C06 — region()/limit= queries: correspondence plugin.

A case = one database (built by the real importer, several construction routes) + a batch
of queries.  The table content actually stored (rows incl. the stored bin, relations) is read
back with plain SQL and handed to Coq together with each query's result (sorted ids)."""
import coqlit as L

COQ_CORR = "Corr.C06"
GEN_DEPS = ["GenBins.v"]
SHARD = 40
SHRINK = True
RULE = ("databases of 1-12 features with coordinates from a boundary pool (bin boundaries of all 5 levels +-2, "
        "2^29 +-2, small values), built by create_db / create_db(transform shifting coordinates) / "
        "update(replace) of edited features; per database ~40 queries over region() in tuple/string/Feature/"
        "kwargs form x completely_within x strand x featuretype x one-sided, and limit= (tuple and string) of "
        "all_features/features_of_type/children/parents.  non-trivial = query with a non-empty result that is "
        "not the whole table; distinct by (api, form, cw, strand?, ft?, one-sided?, |result|)")
ASSUMPTIONS = ["sqlite: NULL never satisfies a comparison; INTEGER affinity converts numeric text arguments",
               "results compared as sorted id lists (each feature once)"]
TRUSTED_EXTRA = ["C06 reads the stored table back with SELECT (features incl. bin, relations) as the model's state"]


def pool():
    out = set([1, 2, 3, 5, 9, 10, 70, 99, 100, 900, 1100, 5000, 99995, 100000])
    for j in range(5):
        size = 1 << (17 + 3 * j)
        nb = 4096 >> (3 * j)
        for m in (1, 2, 7, 8, nb - 1, nb):
            if 0 < m <= nb:
                for d in (-2, -1, 0, 1, 2):
                    out.add(m * size + d)
    for d in (-2, -1, 0, 1, 2, 1000):
        out.add((1 << 29) + d)
    return sorted(x for x in out if x >= 1)


POOL = pool()
SEQIDS = ["chr1", "chr2", "Chr1"]
TYPES = ["gene", "mRNA", "exon", "CDS"]
STRANDS = ["+", "-", "."]


def gen_feature(rng, i, near=None):
    if near is not None and rng.random() < 0.6:
        s = max(1, near + rng.randrange(-3, 4))
    else:
        s = rng.choice(POOL)
    r = rng.random()
    if r < 0.35:
        e = s + rng.choice([0, 1, 2, 5, 100])
    elif r < 0.8:
        e = rng.choice([x for x in POOL if x >= s] or [s])
    else:
        e = s + rng.randrange(0, 1 << rng.randrange(1, 28))
    f = {"id": "f%d" % i, "seqid": rng.choice(SEQIDS[:2] if rng.random() < 0.9 else SEQIDS),
         "type": rng.choice(TYPES), "s": s, "e": e, "strand": rng.choice(STRANDS), "parents": []}
    if rng.random() < 0.04:
        f["s"] = f["e"] = None
    return f


def gen_db(rng):
    n = rng.choice([1, 2, 3, 4, 6, 8, 12])
    feats = []
    anchor = rng.choice(POOL)
    for i in range(n):
        f = gen_feature(rng, i, anchor if rng.random() < 0.5 else None)
        if i > 0 and rng.random() < 0.5:
            f["parents"] = sorted(set(rng.choice(feats)["id"] for _ in range(rng.choice([1, 1, 2]))))
        feats.append(f)
    route = rng.choice(["plain", "plain", "plain", "transform", "update"])
    d = {"feats": feats, "route": route}
    if route == "transform":
        d["shift"] = rng.choice([1, 2, 1 << 17, (1 << 17) - 1, 1 << 20, 70000])
    if route == "update":
        d["edit"] = [rng.randrange(n) for _ in range(rng.choice([1, 2]))]
        d["shift"] = rng.choice([1 << 17, 1 << 20, 70000, 1 << 23])
    return d


def gen_queries(rng, d):
    feats = d["feats"]
    coords = [c for f in feats for c in (f["s"], f["e"]) if c is not None] or [5]
    shift = d.get("shift", 0)

    def coord():
        r = rng.random()
        if r < 0.55:
            c = rng.choice(coords) + rng.choice([0, 0, shift]) + rng.choice([-1, 0, 0, 1])
        elif r < 0.9:
            c = rng.choice(POOL)
        else:
            c = rng.randrange(1, 1 << 29)
        return max(1, c)

    def interval():
        a, b = coord(), coord()
        if rng.random() < 0.15:
            b = a
        return (min(a, b), max(a, b))

    def ft():
        r = rng.random()
        if r < 0.6:
            return None
        if r < 0.8:
            return rng.choice(TYPES)
        return sorted(set(rng.choice(TYPES) for _ in range(rng.choice([1, 2, 3]))))

    qs = []
    for _ in range(22):
        s, e = interval()
        seqid = rng.choice(SEQIDS[:2])
        form = rng.choice(["tuple", "tuple", "string", "string", "feature", "kw", "kw_noseq", "start_only", "end_only"])
        q = {"api": "region", "form": form, "seqid": seqid, "s": s, "e": e, "cw": rng.random() < 0.5,
             "strand": rng.choice([None, None, "+", "-"]), "ft": ft()}
        if form == "feature":
            q["fstrand"] = rng.choice(STRANDS)
        if form == "string" and rng.random() < 0.2:
            q["strand_tok"] = rng.choice(["+", "-"])
        qs.append(q)
    for _ in range(14):
        s, e = interval()
        q = {"api": rng.choice(["all_features", "features_of_type"]), "seqid": rng.choice(SEQIDS[:2]), "s": s, "e": e,
             "limform": rng.choice(["tuple", "string"]), "cw": rng.random() < 0.5,
             "strand": rng.choice([None, None, "+", "-"]), "ft": ft()}
        if q["api"] == "features_of_type" and q["ft"] is None:
            q["ft"] = rng.choice(TYPES)
        qs.append(q)
        if rng.random() < 0.5:
            # the same window asked again the other way round (contained <-> overlapping), in the other limit form: the
            # answer to a query does not depend on which queries were answered before it in this process
            qs.append(dict(q, cw=not q["cw"], limform="string" if q["limform"] == "tuple" else "tuple"))
            qs.append(dict(q))
    with_kids = [f["id"] for f in feats]
    for _ in range(8):
        s, e = interval()
        qs.append({"api": rng.choice(["children", "parents"]), "id": rng.choice(with_kids), "level": rng.choice([None, 1, 2]),
                   "seqid": rng.choice(SEQIDS[:2]), "s": s, "e": e, "limform": rng.choice(["tuple", "string", "none"]),
                   "cw": rng.random() < 0.5, "ft": ft()})
    return qs


def gen_cases(rng, tier):
    n = 160 if tier == "quick" else 2500
    cases = []
    for _ in range(n):
        d = gen_db(rng)
        cases.append({"db": d, "qs": gen_queries(rng, d)})
    return cases


def valid_case(c):
    try:
        d = c["db"]
        if d["route"] not in ("plain", "transform", "update") or not d["feats"]:
            return False
        ids = set()
        for f in d["feats"]:
            if not f["id"] or f["id"] in ids or f["seqid"] not in SEQIDS or f["type"] not in TYPES \
                    or f["strand"] not in STRANDS:
                return False
            if (f["s"] is None) != (f["e"] is None):
                return False
            if f["s"] is not None and not (1 <= f["s"] <= f["e"]):
                return False
            ids.add(f["id"])
            for p in f["parents"]:
                if not p:
                    return False
        if d["route"] == "update" and any(i >= len(d["feats"]) for i in d.get("edit", [])):
            return False
        if d["route"] != "plain" and d.get("shift", 0) < 1:
            return False
        for q in c["qs"]:
            if q["seqid"] not in SEQIDS or q["s"] < 1 or q["e"] < q["s"]:
                return False
            if isinstance(q.get("ft"), list) and (not q["ft"] or any(t not in TYPES for t in q["ft"])):
                return False
            if isinstance(q.get("ft"), str) and q["ft"] not in TYPES:
                return False
            if q["api"] in ("children", "parents") and q["id"] not in ids:
                return False
            if q.get("strand") not in (None, "+", "-"):
                return False
            if q["api"] == "region":
                if q["form"] not in ("tuple", "string", "feature", "kw", "kw_noseq", "start_only", "end_only"):
                    return False
                if q["form"] == "feature" and q.get("fstrand") not in STRANDS:
                    return False
                if "strand_tok" in q and q["strand_tok"] not in ("+", "-"):
                    return False
            elif q["limform"] not in ("tuple", "string", "none"):
                return False
            if q["api"] == "features_of_type" and q["ft"] is None:
                return False
        return True
    except Exception:
        return False


def shrinks(c):
    """drop queries, drop features, simplify routes"""
    qs = c["qs"]
    if len(qs) > 1:
        for i in range(len(qs)):
            yield {"db": c["db"], "qs": [qs[i]]}
        yield {"db": c["db"], "qs": qs[: len(qs) // 2]}
        yield {"db": c["db"], "qs": qs[len(qs) // 2:]}
    d = c["db"]
    feats = d["feats"]
    for i in range(len(feats)):
        nf = feats[:i] + feats[i + 1:]
        gone = feats[i]["id"]
        nf = [dict(f, parents=[p for p in f["parents"] if p != gone]) for f in nf]
        nd = dict(d, feats=nf)
        if "edit" in nd:
            nd["edit"] = [j if j < i else j - 1 for j in nd["edit"] if j != i]
            if not nd["edit"]:
                continue
        yield {"db": nd, "qs": qs}
    if d["route"] != "plain":
        yield {"db": {"feats": feats, "route": "plain"}, "qs": qs}
    for i, f in enumerate(feats):
        if f["parents"]:
            nf = feats[:i] + [dict(f, parents=[])] + feats[i + 1:]
            yield {"db": dict(d, feats=nf), "qs": qs}


def line_of(f, shift=0):
    s = "." if f["s"] is None else str(f["s"] - shift)
    e = "." if f["e"] is None else str(f["e"] - shift)
    attrs = "ID=%s" % f["id"]
    if f["parents"]:
        attrs += ";Parent=" + ",".join(f["parents"])
    return "\t".join([f["seqid"], "src", f["type"], s, e, ".", f["strand"], ".", attrs])


def build_db(d):
    import gffutils
    feats = d["feats"]
    if d["route"] == "plain":
        db = gffutils.create_db("\n".join(line_of(f) for f in feats) + "\n", ":memory:", from_string=True)
    elif d["route"] == "transform":
        sh = d["shift"]

        def tr(f):
            if f.start is not None:
                f.start += sh
                f.end += sh
            return f
        # file coordinates are pre-shift (may be <= 0 on paper: keep them positive by construction)
        ok = all(f["s"] is None or f["s"] - sh >= 1 for f in feats)
        if not ok:
            db = gffutils.create_db("\n".join(line_of(f) for f in feats) + "\n", ":memory:", from_string=True)
        else:
            db = gffutils.create_db("\n".join(line_of(f, sh) for f in feats) + "\n", ":memory:", from_string=True,
                                    transform=tr)
    else:
        sh = d["shift"]
        # first import with pre-edit coordinates for the edited features, then fetch-edit-update(replace)
        pre = []
        for i, f in enumerate(feats):
            if i in d["edit"] and f["s"] is not None and f["s"] - sh >= 1:
                pre.append(dict(f, s=f["s"] - sh, e=f["e"] - sh))
            else:
                pre.append(f)
        db = gffutils.create_db("\n".join(line_of(f) for f in pre) + "\n", ":memory:", from_string=True)
        edited = []
        for i, (f0, f1) in enumerate(zip(pre, feats)):
            if f0 is not f1:
                g = db[f1["id"]]
                g.start, g.end = f1["s"], f1["e"]
                edited.append(g)
        if edited:
            db.update(edited, merge_strategy="replace", make_backup=False)
    return db


def run_query(db, q):
    try:
        return ["ok", sorted(f.id for f in make_iter(db, q))]
    except Exception as ex:
        return ["err", L.err_class(ex)]


def make_iter(db, q):
    ft = q.get("ft")
    if True:
        if q["api"] == "region":
            kw = dict(completely_within=q["cw"], strand=q["strand"], featuretype=ft)
            form = q["form"]
            if form == "tuple":
                it = db.region(region=(q["seqid"], q["s"], q["e"]), **kw)
            elif form == "string":
                s = "%s:%d-%d" % (q["seqid"], q["s"], q["e"])
                if "strand_tok" in q:
                    s += ":" + q["strand_tok"]
                it = db.region(region=s, **kw)
            elif form == "feature":
                import gffutils
                f = gffutils.Feature(seqid=q["seqid"], start=q["s"], end=q["e"], strand=q["fstrand"])
                it = db.region(region=f, **kw)
            elif form == "kw":
                it = db.region(seqid=q["seqid"], start=q["s"], end=q["e"], **kw)
            elif form == "kw_noseq":
                it = db.region(start=q["s"], end=q["e"], **kw)
            elif form == "start_only":
                it = db.region(seqid=q["seqid"], start=q["s"], **kw)
            else:
                it = db.region(seqid=q["seqid"], end=q["e"], **kw)
        else:
            if q["limform"] == "tuple":
                lim = (q["seqid"], q["s"], q["e"])
            elif q["limform"] == "string":
                lim = "%s:%d-%d" % (q["seqid"], q["s"], q["e"])
            else:
                lim = None
            if q["api"] == "all_features":
                it = db.all_features(limit=lim, strand=q["strand"], featuretype=ft, completely_within=q["cw"])
            elif q["api"] == "features_of_type":
                it = db.features_of_type(ft, limit=lim, strand=q["strand"], completely_within=q["cw"])
            elif q["api"] == "children":
                it = db.children(q["id"], level=q["level"], featuretype=ft, limit=lim, completely_within=q["cw"])
            else:
                it = db.parents(q["id"], level=q["level"], featuretype=ft, limit=lim, completely_within=q["cw"])
        return it



def run_impl(case):
    try:
        db = build_db(case["db"])
    except Exception as ex:
        return {"build_error": L.err_class(ex), "rows": [], "rels": [], "res": []}
    rows = [list(r) for r in db.execute("SELECT id, seqid, featuretype, start, end, strand, bin FROM features ORDER BY rowid")]
    rels = [list(r) for r in db.execute("SELECT parent, child, level FROM relations ORDER BY rowid")]
    # all queries are asked for first and then read in lock-step (one item from each in turn): an answer belongs to the call
    # that asked, whatever else the same object is answering meanwhile
    its, res = {}, [None] * len(case["qs"])
    for i, q in enumerate(case["qs"]):
        try:
            its[i] = iter(make_iter(db, q))
            res[i] = ["ok", []]
        except Exception as ex:
            res[i] = ["err", L.err_class(ex)]
    while its:
        for i in list(its):
            try:
                res[i][1].append(next(its[i]).id)
            except StopIteration:
                del its[i]
            except Exception as ex:
                res[i] = ["err", L.err_class(ex)]
                del its[i]
    res = [[r[0], sorted(r[1])] if r[0] == "ok" else r for r in res]
    # features that arrive later, on a sequence the database had not seen, are found by region() like any others
    try:
        import gffutils
        db.update([gffutils.Feature(seqid="chrLATER", source="src", featuretype="gene", start=5, end=50, strand="+", attributes={"ID": ["zz_later"]})],
                  merge_strategy="create_unique", verbose=False)
        late = [[f.id for f in db.region(region=("chrLATER", 1, 100))], [f.id for f in db.region(seqid="chrLATER")],
                [f.id for f in db.region(region="chrLATER:1-100", completely_within=True)]]
        if late != [["zz_later"]] * 3 and res:
            res[0] = ["err", "Other"]
    except Exception:
        if res:
            res[0] = ["err", "Other"]
    return {"rows": rows, "rels": rels, "res": res}


def coq_ft(ft):
    if ft is None:
        return "FNone"
    if isinstance(ft, str):
        return "(FStr %s)" % L.s(ft)
    return "(FList %s)" % L.ss(ft)


def coq_query(q, r):
    impl = L.res(r, L.ss)
    oz = lambda v: L.opt(v, L.z, "Z")
    os_ = lambda v: L.opt(v, L.s, "str")
    if q["api"] == "region":
        form = q["form"]
        strand = q["strand"]
        if form == "tuple":
            f = "(RTuple %s %s %s)" % (L.s(q["seqid"]), oz(q["s"]), oz(q["e"]))
        elif form == "string":
            s = "%s:%d-%d" % (q["seqid"], q["s"], q["e"])
            if "strand_tok" in q:
                s += ":" + q["strand_tok"]
            f = "(RString %s)" % L.s(s)
        elif form == "feature":
            f = "(RFeature %s %s %s %s)" % (L.s(q["seqid"]), oz(q["s"]), oz(q["e"]), L.s(q["fstrand"]))
        elif form == "kw":
            f = "(RKw %s %s %s)" % (os_(q["seqid"]), oz(q["s"]), oz(q["e"]))
        elif form == "kw_noseq":
            f = "(RKw None %s %s)" % (oz(q["s"]), oz(q["e"]))
        elif form == "start_only":
            f = "(RKw %s %s None)" % (os_(q["seqid"]), oz(q["s"]))
        else:
            f = "(RKw %s None %s)" % (os_(q["seqid"]), oz(q["e"]))
        return "QRegion %s %s %s %s %s" % (f, os_(strand), coq_ft(q["ft"]), L.b(q["cw"]), impl)
    if q["limform"] == "tuple":
        lim = "(LTuple (mkLimit %s %s %s))" % (L.s(q["seqid"]), L.z(q["s"]), L.z(q["e"]))
    elif q["limform"] == "string":
        lim = "(LString %s)" % L.s("%s:%d-%d" % (q["seqid"], q["s"], q["e"]))
    else:
        lim = "LNone"
    if q["api"] in ("all_features", "features_of_type"):
        return "QAll %s %s %s %s %s" % (coq_ft(q["ft"]), lim, L.b(q["cw"]), os_(q["strand"]), impl)
    return "QRel %s %s %s %s %s %s %s" % ("Children" if q["api"] == "children" else "Parents", L.s(q["id"]),
                                          oz(q["level"]), coq_ft(q["ft"]), lim, L.b(q["cw"]), impl)


def coq_case(c, o):
    oz = lambda v: L.opt(v, L.z, "Z")
    rows = ["R %s %s %s %s %s %s %s" % (L.s(r[0]), L.s(r[1]), L.s(r[2]), oz(r[3]), oz(r[4]), L.s(r[5]), oz(r[6]))
            for r in o["rows"]]
    rels = ["mkRel %s %s %s" % (L.s(r[0]), L.s(r[1]), L.z(r[2])) for r in o["rels"]]
    if "build_error" in o:
        # an import failure on a valid GFF3 file: handed over as a query that cannot agree
        qs = ["QAll FNone LNone false None (Err E%s)" % o["build_error"]]
    else:
        qs = [coq_query(q, r) for q, r in zip(c["qs"], o["res"])]
    return "Case %s %s %s" % (L.lst(rows, "row"), L.lst(rels, "rel"), L.lst(qs, "query"))


def labels(c, o):
    yield "route=" + c["db"]["route"]
    yield "nfeatures=%d" % len(c["db"]["feats"])
    for q, r in zip(c["qs"], o.get("res", [])):
        yield "api=" + q["api"] + ("/" + q.get("form", q.get("limform", "")))
        yield "cw=%s" % q["cw"]
        if r[0] == "ok":
            yield "result=" + ("empty" if not r[1] else ("all" if len(r[1]) == len(o["rows"]) else "some"))
        else:
            yield "result=err:" + r[1]
        if q["e"] >= (1 << 29):
            yield "query-end>=2^29"


def nontrivial_key(c, o):
    keys = []
    for q, r in zip(c["qs"], o.get("res", [])):
        if r[0] == "ok" and r[1] and len(r[1]) < len(o["rows"]):
            keys.append((q["api"], q.get("form", q.get("limform")), q["cw"], q.get("strand") is not None,
                         q["ft"] is not None, len(r[1])))
    return tuple(sorted(set(keys))) if keys else None


def explain(c, o):
    return ("a region()/limit= query returned a different id set than the filter of the stored rows the property "
            "prescribes (or a stored bin disagrees with bins(start,end), which makes bin-filtered queries drop rows)")
