"""C04 — primary keys follow id_spec, are unique, and look-ups are exact."""
import coqlit as L
from props import imp

COQ_CORR = "Corr.C04"
GEN_DEPS = ["GenBins.v"]
EXTRA_TARGETS = ["Examples/C04_inhabited"]
SHARD = 150
RULE = ("imports of 1-8 features that have / lack / multiply define the id attributes (ID, Name, gene_id, empty lists) x "
        "id_spec forms: None (default), string, list, dict of string or list (featuretype missing from the dict), callables "
        "returning None / '' / a string / 'autoincrement:X' (X with and without ':'), ':seqid:'-style column forms, mixed "
        "lists; merge_strategy error (duplicates -> error) or create_unique; then db[key] for every stored key (by string and "
        "by Feature) and for absent keys.  non-trivial = a case where some feature falls through to autoincrement or a "
        "callable fires; distinct by (spec form, #features, #autoincrement ids, outcome)")
ASSUMPTIONS = ["id_spec callables are the six of props/imp.py CALLS, mirrored in Corr/Import.v call_table"]
TYPES = ["gene", "mRNA", "exon"]

SPECS = [
    None,
    {"t": "str", "k": "ID"}, {"t": "str", "k": "Name"}, {"t": "str", "k": ":seqid:"}, {"t": "str", "k": ":featuretype:"},
    {"t": "list", "ks": [["attr", "ID"], ["attr", "Name"]]},
    {"t": "list", "ks": [["attr", "Name"], ["attr", "ID"]]},
    {"t": "list", "ks": [["attr", "gene_id"], ["attr", ":strand:"]]},
    {"t": "list", "ks": [["call", 2], ["attr", "ID"]]},
    {"t": "list", "ks": [["call", 0], ["call", 4], ["attr", "Name"]]},
    {"t": "list", "ks": [["attr", "ID"], ["call", 1]]},
    {"t": "list", "ks": []},
    {"t": "call", "n": 0}, {"t": "call", "n": 1}, {"t": "call", "n": 2}, {"t": "call", "n": 3}, {"t": "call", "n": 4},
    {"t": "call", "n": 5},
    {"t": "dict", "d": [["gene", ["str", "gene_id"]], ["exon", ["list", [["attr", "Name"], ["attr", "ID"]]]]]},
    {"t": "dict", "d": [["mRNA", ["str", "ID"]]]},
    {"t": "dict", "d": [["gene", ["list", [["call", 3]]]], ["mRNA", ["str", ":source:"]]]},
    {"t": "dict", "d": []},
]


def gen_feat(rng, i):
    attrs = []
    r = rng.random()
    pool = ["a", "b", "g1", "x y", "é", "exon_1", "gene_1", "a_1"]
    if r < 0.7:
        attrs.append(["ID", [rng.choice(pool) if rng.random() < 0.3 else "f%d" % i]])
    elif r < 0.8:
        attrs.append(["ID", ["f%d" % i, "alt%d" % i]])
    elif r < 0.85:
        attrs.append(["ID", []])
    if rng.random() < 0.5:
        attrs.append(["Name", [rng.choice(pool) if rng.random() < 0.4 else "nm%d" % i] * rng.choice([1, 1, 1, 2])])
    if rng.random() < 0.4:
        attrs.append(["gene_id", ["G%d" % rng.randrange(3)]])
    s = rng.randrange(1, 500)
    return imp.mkfeat(seqid=rng.choice(["chr1", "chr2", "chr:3"]), source=rng.choice(["src", "s2", "."]), type_=rng.choice(TYPES),
                      s=s, e=s + rng.randrange(0, 90), strand=rng.choice("+-."), attrs=attrs)


GTF_SPECS = [
    None,
    {"t": "dict", "d": [["exon", ["str", "exon_id"]]]},
    {"t": "dict", "d": [["transcript", ["list", [["attr", "transcript_name"], ["attr", "transcript_id"]]]]]},
    {"t": "dict", "d": [["gene", ["str", "gene_id"]], ["transcript", ["str", "transcript_id"]]]},
    {"t": "dict", "d": [["gene", ["str", "gene_name"]]]},
    {"t": "str", "k": "gene_id"},
    {"t": "list", "ks": [["attr", "exon_id"], ["attr", "transcript_id"]]},
]


def gen_gtf_feat(rng, i):
    t = rng.choice(["gene", "transcript", "exon", "exon", "CDS"])
    g = "G%d" % rng.randrange(3)
    attrs = [["gene_id", [g]]]
    if t != "gene":
        attrs.append(["transcript_id", ["%s.t%d" % (g, rng.randrange(2))]])
    if t == "exon" and rng.random() < 0.6:
        attrs.append(["exon_id", ["E%d" % rng.randrange(4)]])
    if rng.random() < 0.3:
        attrs.append([rng.choice(["gene_name", "transcript_name"]), ["nm%d" % rng.randrange(3)]])
    s = rng.randrange(1, 500)
    return imp.mkfeat(seqid="chr1", source=rng.choice(["src", "."]), type_=t, s=s, e=s + rng.randrange(0, 90), strand=rng.choice("+-"), attrs=attrs)


def gen_cases(rng, tier):
    cases = []
    n = 1500 if tier == "quick" else 20000
    for i in range(n):
        feats = [gen_feat(rng, j) for j in range(rng.choice([1, 2, 3, 4, 6, 8]))]
        spec = SPECS[i % len(SPECS)]
        strat = "error" if rng.random() < 0.7 else "create_unique"
        case = {"feats": feats, "spec": spec, "strategy": strat,
                "absent": [rng.choice(["nope", "", "f0 ", "F0", "gene_9", "exon_0"]) for _ in range(2)]}
        if i % 3 == 2 and all(vs for f in feats for _, vs in f["attrs"]) and all(f["attrs"] for f in feats):
            # the same through a file: a key with several values is written once per value on its line (ID=a;Name=n;ID=b) while
            # the other lines - and so the file's dialect - use comma lists: it still has all its values
            case["text"] = True
            for f in feats:
                multi = [k for k, vs in f["attrs"] if len(vs) > 1]
                if multi and rng.random() < 0.7:
                    first = ["%s=%s" % (k, vs[0]) for k, vs in f["attrs"]]
                    rest = ["%s=%s" % (k, v) for k, vs in f["attrs"] for v in vs[1:]]
                    f["rawcol"] = ";".join(first + rest)
        cases.append(case)
    # the GTF importer: its default id_spec is a dict (gene -> gene_id, transcript -> transcript_id); a dict given by the
    # caller is used as it stands
    for i in range(n // 5):
        feats = [gen_gtf_feat(rng, j) for j in range(rng.choice([1, 2, 3, 5, 8]))]
        cases.append({"fmt": "gtf", "feats": feats, "spec": GTF_SPECS[i % len(GTF_SPECS)], "strategy": "create_unique" if i % 3 else "error",
                      "absent": ["G9", "gene_9", rng.choice(["G0", "gene_1", "exon_1", "transcript_1"])]})
    return cases


def valid_case(c):
    try:
        if not c["feats"] or c["strategy"] not in ("error", "create_unique"):
            return False
        if c["spec"] is not None:
            imp.coq_spec(c["spec"])
            imp.spec_py(c["spec"])
        for f in c["feats"]:
            keys = [k for k, _ in f["attrs"]]
            if len(set(keys)) != len(keys) or any(not k.isidentifier() for k in keys):
                return False
            if any(not isinstance(v, str) or not v for _, vs in f["attrs"] for v in vs):
                return False
            if f["s"] is None or f["e"] is None or f["s"] < 1 or f["e"] < f["s"]:
                return False
            if not all(f[k] for k in ("seqid", "source", "type", "strand")):
                return False
        return all(isinstance(k, str) for k in c["absent"])
    except Exception:
        return False


def row_of_feature(f):
    return {"id": f.id, "seqid": f.seqid, "source": f.source, "type": f.featuretype, "s": f.start, "e": f.end,
            "score": f.score, "strand": f.strand, "frame": f.frame,
            "attrs": [[k, list(v)] for k, v in f.attributes.items()], "extra": list(f.extra), "bin": f.bin}


def run_impl(c):
    if c.get("fmt") == "gtf":
        st, db = imp.run_create(c["feats"], fmt="gtf", id_spec=imp.spec_py(c["spec"]), merge_strategy=c["strategy"],
                                disable_infer_genes=True, disable_infer_transcripts=True)
    else:
        st, db = imp.run_create(c["feats"], text=bool(c.get("text")), id_spec=imp.spec_py(c["spec"]), merge_strategy=c["strategy"])
    if st == "err":
        return {"tables": ["err", db], "lks": []}
    t = imp.dump_tables(db.conn)
    if not imp.tables_ok(t):
        return {"tables": ["err", "Other"], "lks": []}
    lks = []
    keys = [r["id"] for r in t["rows"]]
    for i, k in enumerate(keys + list(c["absent"])):
        try:
            f = db[k]
            if i % 2 == 1:
                f = db[f]              # look-up by Feature
            r = row_of_feature(f)
            lks.append([k, ["ok", r] if imp.tables_ok({"rows": [r], "rels": []}) else ["err", "Other"]])
        except Exception as ex:
            lks.append([k, ["err", L.err_class(ex)]])
    return {"tables": ["ok", t], "lks": lks}


def coq_case(c, o):
    lks = ["(LK %s %s)" % (L.s(k), L.res(r, lambda d: imp.coq_row(d, d["id"], d["bin"]))) for k, r in o["lks"]]
    return "Case %s %s %s %s %s %s" % (L.b(c.get("fmt") == "gtf"), imp.coq_spec(c["spec"], c.get("fmt", "gff3")), imp.STRAT[c["strategy"]],
                                    L.lst([imp.coq_row(f) for f in c["feats"]], "row"), imp.res_tables(o["tables"]),
                                    L.lst(lks, "lookup"))


def labels(c, o):
    yield "spec=" + ("default" if c["spec"] is None else c["spec"]["t"])
    yield "strategy=" + c["strategy"]
    if o["tables"][0] == "ok":
        yield "outcome=ok"
        n_auto = sum(n for _, n in o["tables"][1]["auto"])
        yield "autoincrement-ids=%d" % min(n_auto, 5)
        yield "lookups-notfound=%d" % sum(1 for _, r in o["lks"] if r == ["err", "NotFound"])
    else:
        yield "outcome=" + o["tables"][1]


def nontrivial_key(c, o):
    if o["tables"][0] != "ok":
        return ("err", o["tables"][1], "default" if c["spec"] is None else c["spec"]["t"])
    n_auto = sum(n for _, n in o["tables"][1]["auto"])
    calls = c["spec"] is not None and "call" in str(c["spec"])
    if not n_auto and not calls:
        return None
    return ("default" if c["spec"] is None else str(c["spec"])[:60], len(c["feats"]), n_auto)


def explain(c, o):
    return ("stored primary keys differ from what id_spec prescribes (first present attribute / column / callable / dict entry / "
            "<featuretype>_<n>), or keys are not unique, or db[key] did not return exactly the feature stored under key")
