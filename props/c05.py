"""C05 — duplicate keys are resolved exactly as the chosen merge_strategy says."""
import itertools
import coqlit as L
from props import imp

COQ_CORR = "Corr.C05"
GEN_DEPS = ["GenBins.v"]
EXTRA_TARGETS = ["Examples/C05_inhabited"]
SHARD = 200
RULE = ("arrival sequences of 2-8 GFF3 features over 1-2 keys drawn from a small alphabet of features that differ in "
        "coordinates / source / strand / attribute sets / Parent links, plus explicit '<key>_n' ids and keyless features; all "
        "five strategies; all subsets of force_merge_fields over {source, strand, score} (and single other fields); exhaustive "
        "over sequences of length <= 3 (quick) / 4 (thorough) from a 6-feature alphabet for every strategy; observed: features "
        "table in rowid order (attribute values as sets for 'merge'), relations, duplicates, autoincrements, or the error "
        "class.  non-trivial = sequence with at least one key collision; distinct by (strategy, force, collision pattern)")
ASSUMPTIONS = ["values of merged attributes are compared as sets (list(set(v)) has no defined order)"]
STRATS = ["error", "warning", "replace", "create_unique", "merge"]


def alphabet():
    A = []
    A.append(imp.mkfeat(s=1, e=10, attrs=[["ID", ["a"]], ["Name", ["n1"]]]))
    A.append(imp.mkfeat(s=1, e=10, attrs=[["ID", ["a"]], ["Name", ["n2"]], ["Parent", ["p1"]]]))
    A.append(imp.mkfeat(s=20, e=30, attrs=[["ID", ["a"]], ["Note", ["x", "y"]], ["Parent", ["p2"]]]))
    A.append(imp.mkfeat(s=20, e=30, source="s2", attrs=[["ID", ["a"]], ["Note", ["y", "z"]]]))
    A.append(imp.mkfeat(s=1, e=10, strand="-", attrs=[["ID", ["a_1"]], ["Name", ["n3"]]]))
    A.append(imp.mkfeat(s=5, e=6, type_="exon", attrs=[["Parent", ["a"]]]))
    # one value listed twice inside one attribute (Alias=q,q), under a key the others do not have: merging leaves no repeats
    A.append(imp.mkfeat(s=1, e=10, attrs=[["ID", ["a"]], ["Alias", ["q", "q"]]]))
    return A


ALPHA = alphabet()


def gen_feat(rng):
    key = rng.choice(["a", "a", "b", "a_1", "b_1", None])
    attrs = []
    if key is not None:
        attrs.append(["ID", [key]])
    if rng.random() < 0.6:
        vs = [rng.choice(["x", "y", "z", "é", "1", "10", "2"]) for _ in range(rng.choice([1, 1, 2, 3]))]
        # mostly a sorted set; sometimes with a repeated value inside one list (Note=x,x): merging still gives no repeats
        attrs.append([rng.choice(["Name", "Note"]), vs if rng.random() < 0.25 else sorted(set(vs))])
    if rng.random() < 0.4:
        attrs.append(["Parent", sorted(set(rng.choice(["p1", "p2", "a", "b"]) for _ in range(rng.choice([1, 1, 2]))))])
    s = rng.choice([1, 1, 1, 20])
    if rng.random() < 0.12:
        # '.' coordinates (start and end undefined): two such features agree on these columns like any others
        return imp.mkfeat(seqid=rng.choice(["chr1", "chr1", "chr2"]), source=rng.choice(["s1", "s1", "s2"]), type_=rng.choice(["gene", "exon"]),
                          s=None, e=None if rng.random() < 0.7 else 30, score=".", strand=rng.choice(["+", "+", "-"]), frame=".", attrs=attrs)
    return imp.mkfeat(seqid=rng.choice(["chr1", "chr1", "chr2"]), source=rng.choice(["s1", "s1", "s2", "s3"]),
                      type_=rng.choice(["gene", "gene", "exon"]), s=s, e=s + rng.choice([9, 9, 10]),
                      score=rng.choice([".", ".", "5"]), strand=rng.choice(["+", "+", "-"]), frame=".", attrs=attrs)


FORCES = [[], ["source"], ["strand"], ["source", "strand"], ["score", "source", "strand"], ["seqid"], ["featuretype"], ["frame"],
          ["strand", "source"], ["source", "score"], ["strand", "score", "source"], ["source", "featuretype"], ["frame", "strand"]]


def gen_cases(rng, tier):
    cases = []
    maxlen = 3 if tier == "quick" else 4
    for n in range(1, maxlen + 1):
        for seq in itertools.product(range(len(ALPHA)), repeat=n):
            if len(set(seq)) == 1 and n > 2:
                continue
            for st in STRATS:
                cases.append({"strategy": st, "force": [] if st != "merge" or sum(seq) % 2 else ["source"],
                              "feats": [ALPHA[i] for i in seq]})
    nrand = 1500 if tier == "quick" else 25000
    for i in range(nrand):
        st = STRATS[i % 5] if rng.random() < 0.6 else "merge"
        force = rng.choice(FORCES) if st == "merge" else []
        cases.append({"strategy": st, "force": force, "feats": [gen_feat(rng) for _ in range(rng.choice([2, 3, 4, 5, 6, 8]))],
                      "debug": i % 7 == 3})
    # the GTF importer has its own copy of the dispatch: colliding gene/transcript lines, inference off
    for i in range(nrand // 3):
        st = STRATS[i % 5]
        force = rng.choice(FORCES) if st == "merge" else []
        cases.append({"fmt": "gtf", "strategy": st, "force": force,
                      "feats": [gen_gtf_feat(rng) for _ in range(rng.choice([2, 3, 4, 5, 6]))]})
    # two batches: create_db, then FeatureDB.update on the reopened database with the same strategy
    for i in range(nrand // 2):
        st = STRATS[i % 5] if rng.random() < 0.5 else "merge"
        force = rng.choice(FORCES) if st == "merge" and rng.random() < 0.5 else []
        gtf = i % 4 == 3
        feats = [(gen_gtf_feat(rng) if gtf else gen_feat(rng)) for _ in range(rng.choice([2, 3, 4, 5, 6]))]
        c = {"strategy": st, "force": force, "feats": feats, "split": rng.randrange(1, len(feats))}
        if gtf:
            c["fmt"] = "gtf"
        cases.append(c)
    # three-level chains stored by create_db, then one member arrives again through update() with other Parent values:
    # the links derived from the first version (level 2, already in the table) must follow the strategy too
    chain = [imp.mkfeat(s=1, e=100, attrs=[["ID", ["p1"]]]), imp.mkfeat(s=201, e=300, attrs=[["ID", ["p2"]]]),
             imp.mkfeat(s=1, e=100, type_="mRNA", attrs=[["ID", ["a"]], ["Parent", ["p1"]]]),
             imp.mkfeat(s=201, e=300, type_="mRNA", attrs=[["ID", ["b"]], ["Parent", ["p2"]]]),
             imp.mkfeat(s=5, e=6, type_="exon", attrs=[["ID", ["x"]], ["Parent", ["a"]]])]
    again = [imp.mkfeat(s=1, e=100, type_="mRNA", attrs=[["ID", ["a"]], ["Parent", ["p2"]]]),
             imp.mkfeat(s=1, e=100, type_="mRNA", attrs=[["ID", ["a"]]]),
             imp.mkfeat(s=5, e=6, type_="exon", attrs=[["ID", ["x"]], ["Parent", ["b"]]]),
             imp.mkfeat(s=5, e=6, type_="exon", attrs=[["ID", ["x"]], ["Parent", ["a", "b"]]]),
             imp.mkfeat(s=1, e=100, attrs=[["ID", ["p1"]], ["Parent", ["p2"]]])]
    for st in STRATS:
        for f2 in again:
            cases.append({"strategy": st, "force": [], "feats": chain + [f2], "split": len(chain)})
            cases.append({"strategy": st, "force": [], "feats": chain + [f2]})
        for f2, f3 in itertools.permutations(again, 2):
            cases.append({"strategy": st, "force": [], "feats": chain + [f2, f3], "split": len(chain)})
    for n in (2, 3):
        for seq in itertools.product(range(len(ALPHA)), repeat=n):
            for st in ("merge", "create_unique", "replace"):
                for k in range(1, n):
                    cases.append({"strategy": st, "force": [], "feats": [ALPHA[i] for i in seq], "split": k})
    return cases


def gen_gtf_feat(rng):
    t = rng.choice(["gene", "gene", "transcript", "exon"])
    g = rng.choice(["G1", "G1", "G2", "G1_1"])
    tr = rng.choice(["T1", "T1", "T2"])
    attrs = [["gene_id", [g]]]
    if t != "gene":
        attrs.append(["transcript_id", [tr]])
    if rng.random() < 0.5:
        attrs.append(["note", sorted(set(rng.choice(["x", "y", "z"]) for _ in range(rng.choice([1, 2]))))])
    s = rng.choice([1, 1, 20])
    return imp.mkfeat(seqid="chr1", source=rng.choice(["s1", "s1", "s2"]), type_=t, s=s, e=s + rng.choice([9, 9, 30]),
                      strand=rng.choice(["+", "+", "-"]), attrs=attrs)


def valid_case(c):
    try:
        if "split" in c and not (isinstance(c["split"], int) and 1 <= c["split"] < len(c["feats"])):
            return False
        if not c["feats"] or c["strategy"] not in STRATS or any(f not in imp.FIELD for f in c["force"]):
            return False
        for f in c["feats"]:
            keys = [k for k, _ in f["attrs"]]
            if len(set(keys)) != len(keys) or any(not k.isidentifier() for k in keys):
                return False
            if any(not isinstance(v, str) or not v for _, vs in f["attrs"] for v in vs) or any(not vs for _, vs in f["attrs"]):
                return False
            if any(len(vs) != 1 for k, vs in f["attrs"] if k in ("ID", "gene_id", "transcript_id")):
                return False
            if f["s"] is not None and f["e"] is not None and (f["s"] < 1 or f["e"] < f["s"]):
                return False
            if f["s"] is not None and f["e"] is None:
                return False
            if not all(f[k] for k in ("seqid", "source", "type", "strand", "score", "frame")):
                return False
        return True
    except Exception:
        return False


def shrinks(c):
    feats = c["feats"]
    if "split" in c:
        k = c["split"]
        for i in range(len(feats)):
            nk = k - 1 if i < k else k
            if 1 <= nk < len(feats) - 1:
                yield dict(c, feats=feats[:i] + feats[i + 1:], split=nk)
        return
    for i in range(len(feats)):
        yield dict(c, feats=feats[:i] + feats[i + 1:])
    if c["force"]:
        for i in range(len(c["force"])):
            yield dict(c, force=c["force"][:i] + c["force"][i + 1:])
    for i, f in enumerate(feats):
        for j, (k, vs) in enumerate(f["attrs"]):
            if k != "ID":
                yield dict(c, feats=feats[:i] + [dict(f, attrs=f["attrs"][:j] + f["attrs"][j + 1:])] + feats[i + 1:])
            if len(vs) > 1:
                yield dict(c, feats=feats[:i] + [dict(f, attrs=f["attrs"][:j] + [[k, vs[:1]]] + f["attrs"][j + 1:])] + feats[i + 1:])


def run_two(c):
    import os, shutil, tempfile, warnings
    import gffutils
    from gffutils import constants
    warnings.simplefilter("ignore")
    gtf = c.get("fmt") == "gtf"
    dialect = None
    kw = dict(merge_strategy=c["strategy"], force_merge_fields=list(c["force"]) or None)
    if gtf:
        dialect = dict(constants.dialect)
        dialect.update({"fmt": "gtf", "keyval separator": " ", "quoted GFF2 values": True, "field separator": "; ",
                        "trailing semicolon": True})
        kw.update(disable_infer_genes=True, disable_infer_transcripts=True)
    d = tempfile.mkdtemp(prefix="c05", dir="/dev/shm" if os.path.isdir("/dev/shm") else None)
    try:
        k = c["split"]
        objs = [imp.to_feature(x, dialect) for x in c["feats"]]
        dbfn = os.path.join(d, "t.db")
        try:
            db = gffutils.create_db(objs[:k], dbfn, dialect=dialect, verbose=False, **kw)
            db.conn.close()
        except Exception as ex:
            return {"tables": ["err", "Other"], "phase1": "err"}
        try:
            db = gffutils.FeatureDB(dbfn)
            db.update(objs[k:], make_backup=False, verbose=False, **kw)
        except Exception as ex:
            return {"tables": ["err", L.err_class(ex)]}
        t = imp.dump_tables(db.conn)
        db.conn.close()
        if not imp.tables_ok(t):
            return {"tables": ["err", "Other"]}
        return {"tables": ["ok", t]}
    finally:
        shutil.rmtree(d, ignore_errors=True)


def run_impl(c):
    if "split" in c:
        return run_two(c)
    if c.get("fmt") == "gtf":
        st, db = imp.run_create(c["feats"], fmt="gtf", merge_strategy=c["strategy"], disable_infer_genes=True,
                                disable_infer_transcripts=True, force_merge_fields=list(c["force"]) or None)
    else:
        st, db = imp.run_create(c["feats"], merge_strategy=c["strategy"], force_merge_fields=list(c["force"]) or None,
                                **({"verbose": "debug"} if c.get("debug") else {}))
    if st == "err":
        return {"tables": ["err", db]}
    t = imp.dump_tables(db.conn)
    if not imp.tables_ok(t):
        return {"tables": ["err", "Other"]}
    return {"tables": ["ok", t]}


def coq_case(c, o):
    if "split" in c:
        k = c["split"]
        return "Case2 %s %s %s %s %s %s" % (L.b(c.get("fmt") == "gtf"), imp.STRAT[c["strategy"]], L.lst([imp.FIELD[f] for f in c["force"]], "field"),
                                            L.lst([imp.coq_row(f) for f in c["feats"][:k]], "row"),
                                            L.lst([imp.coq_row(f) for f in c["feats"][k:]], "row"), imp.res_tables(o["tables"]))
    return "%s %s %s %s %s" % ("CaseGtf" if c.get("fmt") == "gtf" else "Case", imp.STRAT[c["strategy"]], L.lst([imp.FIELD[f] for f in c["force"]], "field"),
                                 L.lst([imp.coq_row(f) for f in c["feats"]], "row"), imp.res_tables(o["tables"]))


def _ids(c):
    if c.get("fmt") == "gtf":
        return [dict(f["attrs"]).get({"gene": "gene_id", "transcript": "transcript_id"}.get(f["type"], "-"), [None])[0]
                for f in c["feats"]]
    return [dict(f["attrs"]).get("ID", [None])[0] for f in c["feats"]]


def labels(c, o):
    yield "strategy=" + c["strategy"]
    yield "importer=" + c.get("fmt", "gff3")
    yield "route=" + ("create_db+update" if "split" in c else "create_db")
    yield "force=" + ",".join(c["force"]) if c["force"] else "force=none"
    ids = [i for i in _ids(c) if i]
    yield "collisions=%d" % min(len(ids) - len(set(ids)), 4)
    yield "outcome=" + (o["tables"][0] if o["tables"][0] == "ok" else o["tables"][1])
    if o["tables"][0] == "ok":
        yield "duplicates-rows=%d" % min(len(o["tables"][1]["dups"]), 4)


def nontrivial_key(c, o):
    ids = [i for i in _ids(c) if i]
    if len(ids) == len(set(ids)):
        return None
    out = o["tables"][0] if o["tables"][0] != "ok" else (len(o["tables"][1]["rows"]), len(o["tables"][1]["dups"]))
    return (c["strategy"], tuple(c["force"]), tuple(_ids(c)), out, c.get("split"))


def explain(c, o):
    return ("the stored features / attribute sets / relations / duplicates after importing features with colliding keys "
            "differ from what the merge_strategy prescribes")
