"""C03 — GTF import infers exact gene/transcript extents and the three-level hierarchy."""
import coqlit as L
from props import imp

COQ_CORR = "Corr.C03"
GEN_DEPS = ["GenBins.v"]
EXTRA_TARGETS = ["Examples/C03_inhabited"]
SHARD = 40
RULE = ("GTF annotations of 1-4 genes x 1-3 transcripts x 0-4 exons + CDS/codons (some outside the exon hull, some "
        "transcripts without exons), lines shuffled or interleaved, with/without explicit gene and transcript lines "
        "(matching or not matching the derived extent), all four disable_infer_* combinations, custom keys/subfeature with "
        "the matching id_spec, imported from Feature objects or from GTF text; observed: every stored feature, the relations, "
        "duplicates and autoincrement tables.  non-trivial = import with at least one derived feature and a level-2 "
        "relation; distinct by (flags, #genes, #transcripts, explicit lines?, keys)")
ASSUMPTIONS = ["rows are compared as a set keyed by id (the order in which derived features are inserted is the order of an "
               "ORDER BY with ties); attribute values as sets where a derived feature was merged into an explicit line"]


def gen_annotation(rng, tkey, gkey, sub):
    feats = []
    n_genes = rng.choice([1, 1, 2, 3, 4])
    for gi in range(n_genes):
        g = "G%d" % gi if rng.random() < 0.85 else "g e%d" % gi
        seqid = rng.choice(["chr1", "chr2", "2L"])
        strand = rng.choice("+-")
        base = rng.choice([100, 5000, 131000, 1 << 20])
        g_exons = []
        tr_list = []
        for ti in range(rng.choice([1, 1, 2, 3])):
            t = "%s.t%d" % (g, ti)
            n_ex = rng.choice([0, 1, 2, 3, 4])
            pos = base + rng.randrange(0, 300)
            lines = []
            for ei in range(n_ex):
                s = pos + rng.randrange(0, 200)
                e = s + rng.randrange(0, 150)
                pos = e + rng.randrange(0, 100)
                lines.append(imp.mkfeat(seqid=seqid, source="src", type_=sub, s=s, e=e, strand=strand,
                                        attrs=[[gkey, [g]], [tkey, [t]]] + ([["exon_number", [str(ei + 1)]]] if rng.random() < 0.5 else [])))
                g_exons.append((s, e))
            # other lines: CDS / codons, possibly outside the exon hull
            for _ in range(rng.choice([0, 0, 1, 2])):
                s = base + rng.randrange(-50, 900)
                s = max(1, s)
                e = s + rng.randrange(0, 80)
                lines.append(imp.mkfeat(seqid=seqid, source="src", type_=rng.choice(["CDS", "start_codon", "UTR", "exon" if sub != "exon" else "CDS"]),
                                        s=s, e=e, strand=strand, frame=rng.choice([".", "0", "1"]), attrs=[[gkey, [g]], [tkey, [t]]]))
            tr_list.append((t, lines))
            feats.extend(lines)
        # subfeature lines that carry the gene id only (no transcript id), possibly outside every transcript's span
        if rng.random() < 0.25:
            for _ in range(rng.choice([1, 1, 2])):
                s = max(1, base + rng.randrange(-80, 1500))
                e = s + rng.randrange(0, 120)
                feats.append(imp.mkfeat(seqid=seqid, source="src", type_=rng.choice([sub, sub, "CDS"]), s=s, e=e, strand=strand,
                                        attrs=[[gkey, [g]]]))
                if feats[-1]["type"] == sub:
                    g_exons.append((s, e))
        # explicit lines
        if rng.random() < 0.3 and g_exons:
            lo, hi = min(s for s, _ in g_exons), max(e for _, e in g_exons)
            if rng.random() < 0.4:
                lo, hi = max(1, lo - 7), hi + 11
            feats.append(imp.mkfeat(seqid=seqid, source=rng.choice(["src", "gffutils_derived"]), type_="gene", s=lo, e=hi, strand=strand,
                                    attrs=[[gkey, [g]]] + ([["gene_name", ["nm"]]] if rng.random() < 0.5 else [])))
        for t, lines in tr_list:
            ex = [(f["s"], f["e"]) for f in lines if f["type"] == sub]
            if rng.random() < 0.25:
                lo, hi = (min(s for s, _ in ex), max(e for _, e in ex)) if ex else (base, base + 10)
                feats.append(imp.mkfeat(seqid=seqid, source=rng.choice(["src", "gffutils_derived"]), type_="transcript", s=lo, e=hi,
                                        strand=strand, attrs=[[tkey, [t]], [gkey, [g]]] if rng.random() < 0.7 else [[gkey, [g]], [tkey, [t]]]))
    order = rng.choice(["file", "shuffled", "reversed"])
    if order == "shuffled":
        rng.shuffle(feats)
    elif order == "reversed":
        feats.reverse()
    return feats


def gen_cases(rng, tier):
    cases = []
    n = 260 if tier == "quick" else 5000
    for i in range(n):
        custom = rng.random() < 0.2
        tkey, gkey, sub = ("tid", "gid", "CDS") if custom and rng.random() < 0.5 else (("transcript_id", "gene_id", "exon") if not custom else ("transcript_id", "gene_id", "CDS"))
        feats = gen_annotation(rng, tkey, gkey, sub)
        if not feats:
            continue
        c = {"feats": feats, "tkey": tkey, "gkey": gkey, "sub": sub, "no_genes": (i // 2) % 2 == 1,
             "no_transcripts": i % 2 == 1,
             "strategy": rng.choice(["error", "error", "error", "create_unique", "replace", "merge", "warning"]),
             "text": rng.random() < 0.4}
        if i % 5 == 4:
            # subfeature lines keyed on an attribute of their own (exon_id), the same value on several lines (an exon shared
            # by transcripts): with create_unique the later ones become <id>_1, <id>_2 and their relations follow them
            c["exon_key"] = "exon_id"
            c["strategy"] = rng.choice(["create_unique", "create_unique", "merge", "error"])
            c["feats"] = [dict(f, attrs=f["attrs"] + [["exon_id", ["E%d" % rng.randrange(3)]]]) if f["type"] == sub and rng.random() < 0.8 else f
                          for f in feats]
        if i % 7 == 3:
            # a transcript id that occurs under a second gene id on some lines (read-through / overlapping annotations): the
            # transcript is a child of both genes, and a gene seen only this way still gets its extent
            genes = sorted(set(v[0] for f in c["feats"] for k, v in f["attrs"] if k == gkey))
            other = rng.choice(genes + ["GX"])
            c["feats"] = [dict(f, attrs=[[k, [other]] if k == gkey else [k, v] for k, v in f["attrs"]])
                          if f["type"] == sub and rng.random() < 0.3 else f for f in c["feats"]]
        if i % 6 == 5 and not c.get("exon_key") and c["strategy"] in ("error", "create_unique", "merge"):
            # a second annotation about other genes, imported through update() on the same in-memory database (one sqlite
            # connection for both imports): its transcripts and genes are inferred as in a single import
            f2 = gen_annotation(rng, tkey, gkey, sub)
            ren = lambda v: "H" + v
            c["feats2"] = [dict(f, attrs=[[k, [ren(x) for x in v]] if k in (tkey, gkey) else [k, v] for k, v in f["attrs"]]) for f in f2]
        cases.append(c)
    return cases


def valid_case(c):
    try:
        if not c["feats"] or c["strategy"] not in imp.STRAT:
            return False
        for k in ("tkey", "gkey", "sub"):
            if not c[k] or not c[k].isidentifier():
                return False
        for f in c["feats"]:
            keys = [k for k, _ in f["attrs"]]
            if len(set(keys)) != len(keys) or any(not k.isidentifier() for k in keys):
                return False
            if any(not isinstance(v, str) or not v or '"' in v or ";" in v for _, vs in f["attrs"] for v in vs) or any(not vs for _, vs in f["attrs"]):
                return False
            if f["s"] is None or f["e"] is None or f["s"] < 1 or f["e"] < f["s"]:
                return False
            if not all(f[k] for k in ("seqid", "source", "type", "strand", "score", "frame")):
                return False
        return True
    except Exception:
        return False


def shrinks(c):
    feats = c["feats"]
    for i in range(len(feats)):
        yield dict(c, feats=feats[:i] + feats[i + 1:])
    if c.get("text"):
        yield dict(c, text=False)
    f2 = c.get("feats2") or []
    for i in range(len(f2)):
        yield dict(c, feats2=f2[:i] + f2[i + 1:])
    for i, f in enumerate(feats):
        for j, (k, vs) in enumerate(f["attrs"]):
            if k not in (c["tkey"], c["gkey"]):
                yield dict(c, feats=feats[:i] + [dict(f, attrs=f["attrs"][:j] + f["attrs"][j + 1:])] + feats[i + 1:])


def run_impl(c):
    kw = dict(gtf_transcript_key=c["tkey"], gtf_gene_key=c["gkey"], gtf_subfeature=c["sub"],
              disable_infer_genes=c["no_genes"], disable_infer_transcripts=c["no_transcripts"], merge_strategy=c["strategy"])
    if (c["tkey"], c["gkey"]) != ("transcript_id", "gene_id") or c.get("exon_key"):
        kw["id_spec"] = {"gene": c["gkey"], "transcript": c["tkey"]}
        if c.get("exon_key"):
            kw["id_spec"][c["sub"]] = c["exon_key"]
    if c.get("feats2") and c["no_genes"] and c["no_transcripts"]:
        # the older spelling of "no inference at all" (still accepted, with a warning), on both calls
        import warnings
        warnings.simplefilter("ignore")
        kw.pop("disable_infer_genes")
        kw.pop("disable_infer_transcripts")
        kw["infer_gene_extent"] = False
    st, db = imp.run_create(c["feats"], fmt="gtf", text=c.get("text", False), **kw)
    if st == "err":
        return {"tables": ["err", db]}
    if c.get("feats2"):
        from gffutils import constants
        dialect = dict(constants.dialect)
        dialect.update({"fmt": "gtf", "keyval separator": " ", "quoted GFF2 values": True, "field separator": "; ",
                        "trailing semicolon": True})
        try:
            # update() hands its keyword arguments to the importer class itself, whose names for the three GTF settings lack
            # the gtf_ prefix that create_db uses (with the create_db names they are silently ignored)
            kw2 = dict(kw)
            for a, b in (("gtf_transcript_key", "transcript_key"), ("gtf_gene_key", "gene_key"), ("gtf_subfeature", "subfeature")):
                kw2[b] = kw2.pop(a)
            db.update([imp.to_feature(d, dialect) for d in c["feats2"]], make_backup=False, **kw2)
        except Exception as ex:
            return {"tables": ["err", L.err_class(ex)]}
    t = imp.dump_tables(db.conn)
    if not imp.tables_ok(t):
        return {"tables": ["err", "Other"]}
    return {"tables": ["ok", t]}


def coq_case(c, o):
    g = "(mkGtf %s %s %s %s %s)" % (L.s(c["tkey"]), L.s(c["gkey"]), L.s(c["sub"]), L.b(c["no_genes"]), L.b(c["no_transcripts"]))
    extra = "[(%s, [KAttr %s])]" % (L.s(c["sub"]), L.s(c["exon_key"])) if c.get("exon_key") else "(@nil (str * list idkey))"
    return "Case %s %s %s %s %s %s" % (g, imp.STRAT[c["strategy"]], extra, L.lst([imp.coq_row(f) for f in c["feats"]], "row"),
                                       L.lst([imp.coq_row(f) for f in c.get("feats2", [])], "row"), imp.res_tables(o["tables"]))


def labels(c, o):
    yield "flags=genes:%s,transcripts:%s" % ("off" if c["no_genes"] else "on", "off" if c["no_transcripts"] else "on")
    yield "keys=" + ("standard" if c["tkey"] == "transcript_id" else "custom")
    yield "sub=" + c["sub"]
    yield "input=" + ("text" if c.get("text") else "features")
    yield "strategy=" + c["strategy"]
    if c.get("exon_key"):
        yield "subfeatures-keyed-on-exon_id"
    if c.get("feats2"):
        yield "second-batch-through-update"
    if any(f["type"] in ("gene", "transcript") for f in c["feats"]):
        yield "has-explicit-gene-or-transcript-line"
    if any(f["type"] not in ("gene", "transcript") and not any(k == c["tkey"] for k, _ in f["attrs"]) for f in c["feats"]):
        yield "has-gene-id-only-line"
    if o["tables"][0] == "ok":
        yield "derived=%d" % min(sum(1 for r in o["tables"][1]["rows"] if r["source"] == "gffutils_derived"), 8)
    else:
        yield "outcome=" + o["tables"][1]


def nontrivial_key(c, o):
    if o["tables"][0] != "ok":
        return None
    t = o["tables"][1]
    nd = sum(1 for r in t["rows"] if r["source"] == "gffutils_derived")
    if not nd or not any(r[2] == 2 for r in t["rels"]):
        return None
    return (c["no_genes"], c["no_transcripts"], nd, len(t["rows"]), c["tkey"], c["sub"],
            any(f["type"] in ("gene", "transcript") for f in c["feats"]))


def explain(c, o):
    return ("derived transcript/gene features (one per id owning a subfeature, min start..max end, seqid/strand of the "
            "subfeatures) or the relation table (line -> transcript level 1, -> gene level 2, transcript -> gene level 1, no "
            "self relations) differ from what C03 prescribes")
