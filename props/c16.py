"""C16 — merge() computes the interval union and partitions its inputs."""
import itertools
import coqlit as L
from props import imp

COQ_CORR = "Corr.C16"
GEN_DEPS = ["GenCriteria.v"]
EXTRA_TARGETS = ["Examples/C16_inhabited"]
SHARD = 150
RULE = ("start-ordered feature lists: every multiset of up to 3 (quick) / 4 (thorough) intervals over 8 positions with one "
        "class, and the same with seqid / strand / featuretype mixtures; random lists of 5-9 intervals; criteria sets: the "
        "default, each shipped overlap criterion combined with the class criteria, thresholds 0/1/2/5, exact-coordinates, no "
        "class criteria at all (ambiguous-value handling), two reflexive custom criteria (run-length cap, gap bound); each "
        "list is merged twice over the same Feature objects (fresh ids must continue); children_bp with and without merge on "
        "parents whose children are class-uniform or class-interleaved.  non-trivial = a case producing at least one merged "
        "output; distinct by (criteria, run structure)")
ASSUMPTIONS = ["merged 'source' is the comma-join of a Python set: compared as a set",
               "inputs are identified by object identity for singletons and by id for children"]

CRIT_SETS = [
    ["seqid", "ov_end", "strand", "ftype"],
    ["seqid", "ov_start", "strand", "ftype"],
    ["seqid", "ov_any", "strand", "ftype"],
    ["seqid", "exact", "strand", "ftype"],
    ["seqid", ["end_t", 0], "strand", "ftype"], ["seqid", ["end_t", 2], "strand", "ftype"], ["seqid", ["end_t", 5], "strand"],
    ["seqid", ["start_t", 1], "strand", "ftype"], ["seqid", ["any_t", 2], "strand", "ftype"], [["any_t", 0]],
    ["ov_end"], ["seqid", "ov_end"], ["ov_end", "strand"],
    ["seqid", "ov_end", "strand", "ftype", ["maxcomps", 2]], ["seqid", ["gaple", 3], "strand", "ftype"], [["maxcomps", 3]],
    [],
]


def py_criteria(cs):
    from gffutils import merge_criteria as mc
    out = []
    for c in cs:
        if isinstance(c, str):
            out.append({"seqid": mc.seqid, "strand": mc.strand, "ftype": mc.feature_type, "exact": mc.exact_coordinates_only,
                        "ov_end": mc.overlap_end_inclusive, "ov_start": mc.overlap_start_inclusive,
                        "ov_any": mc.overlap_any_inclusive}[c])
        else:
            k, n = c
            if k == "end_t":
                out.append(mc.overlap_end_threshold(n))
            elif k == "start_t":
                out.append(mc.overlap_start_threshold(n))
            elif k == "any_t":
                out.append(mc.overlap_any_threshold(n))
            elif k == "maxcomps":
                out.append((lambda m: (lambda acc, cur, comps: len(comps) < m))(n))
            elif k == "gaple":
                out.append((lambda d: (lambda acc, cur, comps: cur.start - acc.end <= d))(n))
            else:
                raise ValueError(k)
    return out


def coq_criteria(cs):
    names = {"seqid": "CSeqid", "strand": "CStrand", "ftype": "CFtype", "exact": "CExact", "ov_end": "COvEnd",
             "ov_start": "COvStart", "ov_any": "COvAny"}
    out = []
    for c in cs:
        if isinstance(c, str):
            out.append(names[c])
        else:
            k, n = c
            out.append({"end_t": "(COvEndT %s)", "start_t": "(COvStartT %s)", "any_t": "(COvAnyT %s)",
                        "maxcomps": "(CMaxComps %s%%nat)", "gaple": "(CGapLe %s)"}[k] % L.z(n))
    return L.lst(out, "criterion")


def mk(i, s, e, seqid="chr1", strand="+", type_="exon", source="src", frame="."):
    return {"id": "f%d" % i, "s": s, "e": e, "seqid": seqid, "strand": strand, "type": type_, "source": source, "frame": frame}


def anonymise(feats):
    """features without an ID attribute: stored under <featuretype>_<n>; equal columns then mean equal printed text"""
    n = {}
    out = []
    for f in feats:
        n[f["type"]] = n.get(f["type"], 0) + 1
        out.append(dict(f, id="%s_%d" % (f["type"], n[f["type"]])))
    return out


def intervals(maxpos=8):
    return [(s, e) for s in range(1, maxpos + 1) for e in range(s, maxpos + 1)]


def gen_cases(rng, tier):
    cases = []
    IV = intervals()
    kmax = 3 if tier == "quick" else 4
    # exhaustive multisets, one class, default criteria + a rotating second criteria set
    n = 0
    for k in range(1, kmax + 1):
        for combo in itertools.combinations_with_replacement(IV, k):
            feats = [mk(i, s, e) for i, (s, e) in enumerate(sorted(combo))]
            n += 1
            cases.append({"k": "merge", "crit": CRIT_SETS[0], "feats": feats})
            if tier == "thorough" or n % 3 == 0:
                cases.append({"k": "merge", "crit": CRIT_SETS[1 + n % (len(CRIT_SETS) - 1)], "feats": feats})
            if len(set(combo)) < k and (tier == "thorough" or n % 2 == 0):
                # repeated lines without an ID: distinct features whose text is identical
                cases.append({"k": "merge", "crit": CRIT_SETS[0], "feats": anonymise(feats), "anon": True})
    # class mixtures
    nmix = 1500 if tier == "quick" else 20000
    for i in range(nmix):
        k = rng.choice([2, 3, 3, 4, 4, 5, 7, 9])
        ivs = sorted(rng.choice(IV) if rng.random() < 0.7 else (lambda s: (s, s + rng.randrange(0, 30)))(rng.randrange(1, 60))
                     for _ in range(k))
        feats = []
        for j, (s, e) in enumerate(ivs):
            feats.append(mk(j, s, e, seqid=rng.choice(["chr1", "chr1", "chr2"]), strand=rng.choice(["+", "+", "-"]),
                            type_=rng.choice(["exon", "exon", "CDS"]), source=rng.choice(["src", "s2"]),
                            frame=rng.choice([".", ".", "0"])))
        if rng.random() < 0.5:
            # make classes contiguous in start order is not possible in general; keep a share of uniform-class lists
            for f in feats:
                f["seqid"], f["strand"], f["type"] = "chr1", "+", "exon"
        c = {"k": "merge", "crit": CRIT_SETS[i % len(CRIT_SETS)], "feats": feats}
        if i % 5 == 2:
            for j in range(1, len(feats)):
                if rng.random() < 0.4:
                    feats[j] = dict(feats[j - 1])
            c["feats"] = anonymise(feats)
            c["anon"] = True
        if i % 4 == 0:
            # previously merged objects: some of them went through merge() before, alone or in sub-lists
            c["pre"] = [sorted(rng.sample(range(len(feats)), rng.choice([1, 1, 2, min(3, len(feats))]))) for _ in range(rng.choice([1, 2]))]
        cases.append(c)
    # children_bp
    nbp = 400 if tier == "quick" else 6000
    for i in range(nbp):
        k = rng.choice([1, 2, 3, 4, 6])
        ivs = sorted((lambda s: (s, s + rng.randrange(0, 12)))(rng.randrange(1, 40)) for _ in range(k))
        mixed = rng.random() < 0.3
        feats = [mk(j, s, e, strand=rng.choice(["+", "-"]) if mixed else "+") for j, (s, e) in enumerate(ivs)]
        c = {"k": "bp", "crit": CRIT_SETS[0] if rng.random() < 0.8 else ["seqid", "ov_end", "ftype"], "feats": feats}
        if i % 6 == 1:
            for j in range(1, len(feats)):
                if rng.random() < 0.5:
                    feats[j] = dict(feats[j - 1])
            c["feats"] = anonymise(feats)
            c["anon"] = True
        cases.append(c)
    # merge_all: whole databases, several classes, no ties on (seqid, type, strand, start)
    nall = 250 if tier == "quick" else 4000
    for i in range(nall):
        feats, seen = [], set()
        for j in range(rng.choice([1, 2, 3, 5, 8])):
            f = mk(j, 0, 0, seqid=rng.choice(["chr1", "chr1", "chr2"]), strand=rng.choice(["+", "+", "-"]),
                   type_=rng.choice(["exon", "exon", "CDS"]), source=rng.choice(["src", "s2"]), frame=rng.choice([".", "0"]))
            s0 = rng.randrange(1, 40)
            while (f["seqid"], s0) in seen:
                s0 += 1
            seen.add((f["seqid"], s0))
            f["s"], f["e"] = s0, s0 + rng.randrange(0, 12)
            if rng.random() < 0.3:
                f["parent"] = "f%d" % rng.randrange(0, 8)
            feats.append(f)
        # merge_order / merge_criteria variants: the default, and orders under which runs may span types or strands
        variant = [(["seqid", "featuretype", "strand", "start"], ["seqid", "ov_end", "strand", "ftype"]),
                   (["seqid", "strand", "start"], ["seqid", "ov_end", "strand"]),
                   (["seqid", "featuretype", "start"], ["seqid", "ov_end", "ftype"]),
                   (["seqid", "start"], ["seqid", "ov_end"])][i % 4 if i % 3 else 0]
        cases.append({"k": "all", "exclude": i % 2 == 0, "feats": feats, "crit": variant[1], "order": variant[0], "twice": rng.random() < 0.2})
    return cases


def valid_case(c):
    try:
        if c["k"] not in ("merge", "bp", "all") or not c["feats"]:
            return False
        coq_criteria(c["crit"])
        ids = [f["id"] for f in c["feats"]]
        if c.get("anon") and c["k"] in ("merge", "bp") and ids != [f["id"] for f in anonymise(c["feats"])]:
            return False
        if len(set(ids)) != len(ids):
            return False
        for idx in c.get("pre", []):
            if sorted(set(idx)) != list(idx) or any(i >= len(c["feats"]) for i in idx):
                return False
        last = None
        for f in c["feats"]:
            if not (1 <= f["s"] <= f["e"]) or "," in f["seqid"] + f["source"] + f["type"]:
                return False
            if not all(f[k] for k in ("id", "seqid", "strand", "type", "source", "frame")):
                return False
            if c["k"] != "all" and last is not None and f["s"] < last:
                return False
            last = f["s"]
        return True
    except Exception:
        return False


def shrinks(c):
    feats = c["feats"]
    if c.get("pre"):
        yield {k: v for k, v in c.items() if k != "pre"}
        for j in range(len(c["pre"])):
            yield dict(c, pre=c["pre"][:j] + c["pre"][j + 1:])
    else:
        for i in range(len(feats)):
            rest = feats[:i] + feats[i + 1:]
            yield dict(c, feats=anonymise(rest) if c.get("anon") else rest)
    for i in range(len(c["crit"])):
        yield dict(c, crit=c["crit"][:i] + c["crit"][i + 1:])


def build_db(feats, parent=None, anon=False):
    import gffutils
    lines = []
    if parent:
        lines.append("\t".join(["chr1", "src", "mRNA", "1", "1000", ".", "+", ".", "ID=%s" % parent]))
        # an intermediate feature under the parent: every second child hangs under both, so the parent reaches it at level 1
        # and at level 2 - it is still ONE child
        lines.append("\t".join(["chr1", "src", "part", "1", "1000", ".", "+", ".", "ID=%s.mid;Parent=%s" % (parent, parent)]))
    for n, f in enumerate(feats):
        attrs = ("Name=x" if anon else "ID=%s" % f["id"]) + (";Parent=%s" % (parent if n % 2 else "%s.mid,%s" % (parent, parent)) if parent else "")
        lines.append("\t".join([f["seqid"], f["source"], f["type"], str(f["s"]), str(f["e"]), ".", f["strand"], f["frame"], attrs]))
    return gffutils.create_db("\n".join(lines) + "\n", ":memory:", from_string=True)


def observe(outs, objs):
    res = []
    for o in outs:
        kids = getattr(o, "children", ())
        if kids:
            if dict((k, list(v)) for k, v in o.attributes.items()) != {"ID": [o.id]}:
                return ["err", "Other"]
            res.append({"t": "m", "id": o.id, "seqid": o.seqid, "strand": o.strand, "type": o.featuretype, "s": o.start,
                        "e": o.end, "frame": o.frame, "children": [c.id for c in kids], "sources": o.source.split(",")})
        else:
            who = [x.id for x in objs if x is o]
            if len(who) != 1:
                return ["err", "Other"]
            res.append({"t": "s", "id": who[0]})
    return ["ok", res]


class _Crit(object):
    """the criteria as the caller may hand them over: a list, a tuple, or a one-shot iterator / generator (made afresh for
    every call)"""
    def __init__(self, cs, form):
        self.cs, self.form = list(cs), form

    def arg(self):
        if self.form == 0:
            return list(self.cs)
        if self.form == 1:
            return tuple(self.cs)
        if self.form == 2:
            return iter(list(self.cs))
        return (x for x in list(self.cs))


def run_impl(c):
    import zlib
    form = zlib.crc32(repr(sorted(c.items(), key=repr)).encode("utf-8", "replace")) % 4
    if c["k"] == "merge":
        db = build_db(c["feats"], anon=c.get("anon", False))
        objs = [db[f["id"]] for f in c["feats"]]
        before = [str(x) for x in objs]
        a0 = sorted([k, v] for k, v in db._autoincrements.items())
        crit_ = _Crit(py_criteria(c["crit"]), form)
        out = {"a0": a0}
        for idx in c.get("pre", []):
            try:
                list(db.merge([objs[i] for i in idx], merge_criteria=crit_.arg()))
            except Exception:
                pass
        last = []
        for tag in ("first", "second"):
            try:
                last = list(db.merge(objs, merge_criteria=crit_.arg()))
                out[tag] = observe(last, objs)
            except Exception as ex:
                out[tag] = ["err", L.err_class(ex)]
        # an object that joins no run is yielded as it is, with no children - also when it is the merged
        # output of an earlier call
        alone = True
        for o in last:
            try:
                r = list(db.merge([o], merge_criteria=crit_.arg()))
                alone = alone and len(r) == 1 and r[0] is o and not getattr(r[0], "children", ())
            except Exception:
                alone = False
        out["alone_ok"] = alone
        if [str(x) for x in objs] != before:
            out["first"] = ["err", "Other"]          # inputs' columns/attributes must be unchanged
        return out
    if c["k"] == "all":
        import gffutils
        lines = []
        for f in c["feats"]:
            attrs = "ID=%s" % f["id"] + (";Parent=%s" % f["parent"] if f.get("parent") else "")
            lines.append("\t".join([f["seqid"], f["source"], f["type"], str(f["s"]), str(f["e"]), ".", f["strand"], f["frame"], attrs]))
        db = gffutils.create_db("\n".join(lines) + "\n", ":memory:", from_string=True)
        before = imp.dump_tables(db.conn)
        mem = sorted([k, v] for k, v in db._autoincrements.items())
        try:
            kwa = {}
            if c.get("order"):
                kwa = {"merge_order": tuple(c["order"]), "merge_criteria": _Crit(py_criteria(c["crit"]), form).arg()}
            db.merge_all(exclude_components=c["exclude"], **kwa)
            if c.get("twice"):
                pass
            after = ["ok", imp.dump_tables(db.conn)]
            if not imp.tables_ok(after[1]):
                after = ["err", "Other"]
        except Exception as ex:
            after = ["err", L.err_class(ex)]
        return {"before": before, "mem": mem, "after": after}
    db = build_db(c["feats"], parent="P", anon=c.get("anon", False))
    crit_ = _Crit(py_criteria(c["crit"]), form)
    out = {}
    for tag, m in (("plain", False), ("merged", True)):
        try:
            out[tag] = ["ok", db.children_bp("P", child_featuretype=[f["type"] for f in c["feats"]][0], merge=m, merge_criteria=crit_.arg())]
        except Exception as ex:
            out[tag] = ["err", L.err_class(ex)]
    return out


def coq_in(f):
    return "(In_ %s %s %s %s %s %s %s %s)" % (L.s(f["id"]), L.s(f["seqid"]), L.s(f["strand"]), L.s(f["type"]), L.z(f["s"]),
                                             L.z(f["e"]), L.s(f["source"]), L.s(f["frame"]))


def coq_obs(r):
    def one(o):
        if o["t"] == "s":
            return "(ObsSingle %s)" % L.s(o["id"])
        return "(ObsMerged %s %s %s %s %s %s %s %s %s)" % (L.s(o["id"]), L.s(o["seqid"]), L.s(o["strand"]), L.s(o["type"]),
                                                          L.z(o["s"]), L.z(o["e"]), L.s(o["frame"]), L.ss(o["children"]),
                                                          L.ss(o["sources"]))
    return L.res(r, lambda l: L.lst([one(o) for o in l], "oobs"))


def coq_case(c, o):
    ins = L.lst([coq_in(f) for f in c["feats"]], "minput")
    if c["k"] == "merge":
        a0 = L.lst(["(%s, %s)" % (L.s(k), L.z(v)) for k, v in o["a0"]], "(str * Z)")
        pre = L.lst([L.lst([coq_in(c["feats"][i]) for i in idx], "minput") for idx in c.get("pre", [])], "(list minput)")
        return "CMerge %s %s %s %s %s %s %s" % (coq_criteria(c["crit"]), pre, ins, a0, coq_obs(o["first"]), coq_obs(o["second"]),
                                                L.b(o.get("alone_ok", False)))
    if c["k"] == "all":
        mem = L.lst(["(%s, %s)" % (L.s(k), L.z(v)) for k, v in o["mem"]], "(str * Z)")
        okeys = {"seqid": "KSeqid", "featuretype": "KFtype", "strand": "KStrand", "start": "KStart"}
        order = L.lst([okeys[k] for k in (c.get("order") or ["seqid", "featuretype", "strand", "start"])], "okey")
        crit = coq_criteria(c["crit"] if c.get("order") else ["seqid", "ov_end", "strand", "ftype"])
        return "CMergeAll %s %s %s %s %s %s" % (L.b(c["exclude"]), order, crit, imp.coq_tables(o["before"]), mem, imp.res_tables(o["after"]))
    return "CBp %s %s %s %s" % (coq_criteria(c["crit"]), ins, L.res(o["plain"], L.z), L.res(o["merged"], L.z))


def labels(c, o):
    yield "kind=" + c["k"]
    yield "n=%d" % len(c["feats"])
    if c["k"] == "merge":
        yield "previously-merged-objects" if c.get("pre") else "fresh-objects"
        yield "criteria=" + ",".join(x if isinstance(x, str) else "%s%d" % tuple(x) for x in c["crit"]) if c["crit"] else "criteria=none"
        for tag in ("first", "second"):
            if o[tag][0] == "ok":
                yield "%s/merged-outputs=%d" % (tag, min(3, sum(1 for x in o[tag][1] if x["t"] == "m")))
            else:
                yield "%s/ERR=%s" % (tag, o[tag][1])
    elif c["k"] == "all":
        yield "merge_all/exclude=%s" % c["exclude"]
        if o["after"][0] == "ok":
            yield "merge_all/new-rows=%d" % min(3, sum(1 for r in o["after"][1]["rows"] if r["attrs"] == [["ID", [r["id"]]]] and "_" in r["id"]))
        else:
            yield "merge_all/ERR=" + o["after"][1]
    else:
        classes = set((f["seqid"], f["strand"], f["type"]) for f in c["feats"])
        yield "bp/classes=%d" % len(classes)


def nontrivial_key(c, o):
    if c["k"] == "merge" and o["first"][0] == "ok":
        shape = tuple(len(x.get("children", [])) for x in o["first"][1])
        if any(shape):
            return (str(c["crit"]), shape)
    if c["k"] == "all":
        if o["after"][0] == "ok" and len(o["after"][1]["rows"]) != len(o["before"]["rows"]):
            return ("all", c["exclude"], len(o["before"]["rows"]), len(o["after"][1]["rows"]))
        return None
    if c["k"] == "bp" and o["merged"][0] == "ok" and o["plain"] != o["merged"]:
        return ("bp", len(c["feats"]), o["plain"][1] - o["merged"][1])
    return None


def explain(c, o):
    return ("merge() outputs (partition of the inputs in order, run boundaries by the criteria, min..max extents, fresh ids, "
            "ambiguous-value columns, same result when merging the same objects again) or children_bp differ from the model / "
            "from the interval union")
