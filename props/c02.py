"""C02 — GFF3 hierarchy: children/parents are exactly the Parent graph, two levels deep."""
import itertools
import coqlit as L
from props import imp

COQ_CORR = "Corr.C02"
GEN_DEPS = ["GenBins.v"]
EXTRA_TARGETS = ["Examples/C02_inhabited"]
SHARD = 60
RULE = ("GFF3 annotation graphs: DAGs of 1-9 features, depth up to 4, 0-3 Parent values each (shared children, "
        "multi-parent, diamonds, several grandparents), dangling Parent values, ids with spaces/unicode/'%;=,'; the lines "
        "in creation order, reversed, and shuffled (all permutations for graphs up to 5 lines in the thorough tier); "
        "imported from text (from_string) or from Feature objects; observed: the whole relations table and "
        "children()/parents() of every node and of dangling ids x level None/1/2 x featuretype filter.  "
        "non-trivial = graph with a level-2 relation; distinct by (n, #edges, #level-2 rows, order kind)")
ASSUMPTIONS = ["results compared as sorted id lists; the relations table as a set of (parent, child, level)"]
TYPES = ["gene", "mRNA", "exon", "CDS"]
ODD_IDS = ["g 1", "é", "a;b", "x=y", "p,q", "50%", " lead", "trail ", "Z_9.-"]


def gen_graph(rng):
    n = rng.choice([1, 2, 3, 4, 5, 6, 7, 9])
    names = []
    for i in range(n):
        nm = "n%d" % i
        if rng.random() < 0.15:
            nm = rng.choice(ODD_IDS) + str(i)
        names.append(nm)
    feats = []
    for i in range(n):
        ps = []
        if i > 0:
            k = rng.choice([0, 1, 1, 1, 2, 3])
            ps = sorted(set(rng.choice(names[:i]) for _ in range(k)))
        if rng.random() < 0.12:
            ps.append(rng.choice(["ghost", "n99", "gh ost"]))
        if rng.random() < 0.05 and ps:
            ps.append(ps[0])          # repeated Parent value
        attrs = [["ID", [names[i]]]]
        if ps:
            attrs.append(["Parent", ps])
        if rng.random() < 0.3:
            attrs.append(["Name", ["x%d" % i]])
        if rng.random() < 0.25 and i > 0:
            # free attributes that merely look like the reserved tag: they name stored features but are no Parent links
            attrs.append([rng.choice(["parent", "PARENT", "Parental", "parent_gene", "Derives_from"]), [rng.choice(names[:i])]])
        s = rng.randrange(1, 1000)
        feats.append(imp.mkfeat(type_=rng.choice(TYPES), s=s, e=s + rng.randrange(0, 500), attrs=attrs,
                                strand=rng.choice("+-.")))
    return feats


def gen_queries(rng, feats):
    ids = [f["attrs"][0][1][0] for f in feats]
    targets = ids + ["ghost", "nobody"]
    qs = []
    for x in targets:
        for d in ("children", "parents"):
            for lvl in (None, 1, 2):
                ft = None
                r = rng.random()
                if r < 0.2:
                    ft = rng.choice(TYPES)
                elif r < 0.3:
                    ft = sorted(set(rng.choice(TYPES) for _ in range(2)))
                qs.append({"dir": d, "id": x, "level": lvl, "ft": ft, "as_feature": rng.random() < 0.2 and x in ids})
    return qs


def gen_cases(rng, tier):
    cases = []
    n = 220 if tier == "quick" else 3000
    for i in range(n):
        feats = gen_graph(rng)
        orders = [list(range(len(feats))), list(range(len(feats)))[::-1]]
        if tier == "thorough" and len(feats) <= 5 and i % 10 == 0:
            orders = [list(p) for p in itertools.permutations(range(len(feats)))]
        else:
            for _ in range(2):
                p = list(range(len(feats)))
                rng.shuffle(p)
                orders.append(p)
        qs = gen_queries(rng, feats)
        for o in orders:
            c = {"feats": [feats[j] for j in o], "qs": qs, "text": rng.random() < 0.6}
            if c["text"] and rng.random() < 0.3:
                # a file that opens with a dozen lines written in the one-key-per-value style (Dbxref=a;Dbxref=b): they decide
                # the file's dialect; the comma lists further down (Parent=m1,m2) are still lists
                lead = [imp.mkfeat(seqid="chrR", type_="region", s=10 * k + 1, e=10 * k + 5,
                                   attrs=[["ID", ["lead%d" % k]], ["Dbxref", ["db:%d" % k, "x:%d" % k]]]) for k in range(12)]
                for k, f in enumerate(lead):
                    f["rawcol"] = "ID=lead%d;Dbxref=db:%d;Dbxref=x:%d" % (k, k, k)
                c["feats"] = lead + c["feats"]
            if len(feats) >= 2 and rng.random() < 0.3:
                # the same lines in two batches: create_db, then FeatureDB.update from a lazy source that itself queries the
                # database (the db.update(db.create_introns()) idiom); relatives are asked for before and after
                c["split"] = rng.randrange(1, len(feats))
                c["text"] = False
            cases.append(c)
    return cases


def valid_case(c):
    try:
        if not c["feats"]:
            return False
        if "split" in c and not (1 <= c["split"] < len(c["feats"])):
            return False
        present = set(f["attrs"][0][1][0] for f in c["feats"] if f["attrs"] and f["attrs"][0][0] == "ID")
        if any(q.get("as_feature") and q["id"] not in present for q in c["qs"]):
            return False                      # db[<absent id>] raises before the query is made
        for f in c["feats"]:
            if not f["attrs"] or f["attrs"][0][0] != "ID" or len(f["attrs"][0][1]) != 1 or not f["attrs"][0][1][0]:
                return False
            if f["s"] is None or f["e"] is None or f["s"] < 1 or f["e"] < f["s"]:
                return False
            keys = [k for k, _ in f["attrs"]]
            if len(set(keys)) != len(keys) or any(not v for k, vs in f["attrs"] for v in vs) or any(not vs for _, vs in f["attrs"]):
                return False
            if any(not k.isidentifier() for k in keys):
                return False
        for q in c["qs"]:
            if q["dir"] not in ("children", "parents") or q["level"] not in (None, 1, 2) or not q["id"]:
                return False
            if isinstance(q["ft"], list) and not q["ft"]:
                return False
            if q["ft"] == "":
                return False
        return True
    except Exception:
        return False


def shrinks(c):
    feats, qs = c["feats"], c["qs"]
    if len(qs) > 1:
        for q in qs:
            yield dict(c, qs=[q])
        yield dict(c, qs=qs[: len(qs) // 2])
    for i in range(len(feats)):
        c2 = dict(c, feats=feats[:i] + feats[i + 1:])
        if "split" in c:
            k = c["split"] - 1 if i < c["split"] else c["split"]
            if not (1 <= k < len(feats) - 1):
                continue
            c2["split"] = k
        yield c2
    for i, f in enumerate(feats):
        for j, (k, vs) in enumerate(f["attrs"]):
            if k != "ID":
                nf = dict(f, attrs=f["attrs"][:j] + f["attrs"][j + 1:])
                yield dict(c, feats=feats[:i] + [nf] + feats[i + 1:])
                if len(vs) > 1:
                    for t in range(len(vs)):
                        nf = dict(f, attrs=f["attrs"][:j] + [[k, vs[:t] + vs[t + 1:]]] + f["attrs"][j + 1:])
                        yield dict(c, feats=feats[:i] + [nf] + feats[i + 1:])
    if c.get("text"):
        yield dict(c, text=False)


def two_batches(c):
    import os, tempfile, warnings
    import gffutils
    warnings.simplefilter("ignore")
    d = tempfile.mkdtemp(prefix="c02", dir="/dev/shm" if os.path.isdir("/dev/shm") else None)
    objs = [imp.to_feature(x) for x in c["feats"]]
    ids = [f["attrs"][0][1][0] for f in c["feats"]]
    k = c["split"]
    db = gffutils.create_db(objs[:k], os.path.join(d, "t.db"), verbose=False)

    def ask():
        for i in ids:
            list(db.children(i))
            list(db.parents(i))

    def source():
        for o in objs[k:]:
            ask()
            yield o
    ask()
    db.update(source(), make_backup=False, verbose=False)
    return db, d


def run_impl(c):
    tmpd = None
    if "split" in c:
        try:
            db, tmpd = two_batches(c)
            st = "ok"
        except Exception as ex:
            st, db = "err", L.err_class(ex)
    else:
        st, db = imp.run_create(c["feats"], text=c.get("text", False))
    try:
        return run_queries(c, st, db)
    finally:
        if tmpd:
            import shutil
            try:
                db.conn.close()
            except Exception:
                pass
            shutil.rmtree(tmpd, ignore_errors=True)


def run_queries(c, st, db):
    if st == "err":
        return {"tables": ["err", db], "qs": []}
    t = imp.dump_tables(db.conn)
    if not imp.tables_ok(t):
        return {"tables": ["err", "Other"], "qs": []}
    out = []
    for q in c["qs"]:
        try:
            x = q["id"]
            if q.get("as_feature"):
                x = db[x]
            fn = db.children if q["dir"] == "children" else db.parents
            res = list(fn(x, level=q["level"], featuretype=q["ft"]))
            ids = [f.id for f in res]
            out.append(["ok", sorted(ids)] if len(set(ids)) == len(ids) else ["err", "Duplicate"])
        except Exception as ex:
            out.append(["err", L.err_class(ex)])
    # iter_by_parent_childs: every unit is the parent followed by its children - the same children the children() query
    # gives for that parent, whichever ordering is asked for
    try:
        types = sorted(set(r["type"] for r in t["rows"]))[:3]
        for ft in types:
            for ob in (None, "start", ["seqid", "start"]):
                for unit in db.iter_by_parent_childs(featuretype=ft, order_by=ob):
                    kids = sorted(f.id for f in unit[1:])
                    if unit[0].featuretype != ft or kids != sorted(f.id for f in db.children(unit[0].id)):
                        raise ValueError("unit of %s: %r" % (unit[0].id, kids))
    except Exception as ex:
        if out:
            out[0] = ["err", "Other"]
        else:
            return {"tables": ["err", "Other"], "qs": []}
    return {"tables": ["ok", t], "qs": out}


def coq_ft(ft):
    if ft is None:
        return "FNone"
    if isinstance(ft, str):
        return "(FStr %s)" % L.s(ft)
    return "(FList %s)" % L.ss(ft)


def coq_case(c, o):
    qs = []
    for q, r in zip(c["qs"], o["qs"]):
        qs.append("(QO %s %s %s %s %s)" % ("Children" if q["dir"] == "children" else "Parents", L.s(q["id"]),
                                          imp.oz(q["level"]), coq_ft(q["ft"]), L.res(r, L.ss)))
    return "Case %s %s %s" % (L.lst([imp.coq_row(f) for f in c["feats"]], "row"), imp.res_tables(o["tables"]),
                              L.lst(qs, "qobs"))


def labels(c, o):
    yield "n=%d" % len(c["feats"])
    yield "route=" + ("create_db+update(reading source)" if "split" in c else "create_db")
    yield "input=" + ("text" if c.get("text") else "features")
    if o["tables"][0] == "ok":
        l2 = sum(1 for r in o["tables"][1]["rels"] if r[2] == 2)
        yield "level2-rows=%d" % min(l2, 6)
        ids = set(r["id"] for r in o["tables"][1]["rows"])
        if any(r[0] not in ids for r in o["tables"][1]["rels"]):
            yield "has-dangling-parent"
        if any(len(v) > 1 for f in c["feats"] for k, v in f["attrs"] if k == "Parent"):
            yield "has-multi-parent"
    else:
        yield "import-error=" + o["tables"][1]


def nontrivial_key(c, o):
    if o["tables"][0] != "ok":
        return None
    rels = o["tables"][1]["rels"]
    l2 = sum(1 for r in rels if r[2] == 2)
    if not l2:
        return None
    return (len(c["feats"]), len(rels) - l2, l2, tuple(f["attrs"][0][1][0] for f in c["feats"]) < tuple(sorted(f["attrs"][0][1][0] for f in c["feats"])))


def explain(c, o):
    return ("the relations table or a children()/parents() result differs from the Parent graph of the input "
            "(level 1 = features naming x in Parent; level 2 = their level-1 children; each once)")
