"""C07 — parse a line of the grammar and print it back."""
import coqlit as L
from props import grammar as G

COQ_CORR = "Corr.C07"
GEN_DEPS = ["GenConst.v"]
SHARD = 250
RULE = ("lines generated as data over all 36 style combinations (kv style x field separator x trailing semicolon x "
        "comma-list/repeated keys), 0..6 attributes, 0..3 values from an adversarial alphabet (reserved characters, "
        "quotes, unicode whitespace/letters, controls), '.' coordinates, extras; rendered by the harness's own renderer; "
        "plus the space-separated rendering parsed with strict=False.  non-trivial = >=1 attribute; distinct by "
        "(style, #attrs, multi-valued?, flag?, extras?, spaced?)")
ASSUMPTIONS = ["re \\w table (Base/WordTable.v) and str.strip whitespace table checked against CPython by tools/selfcheck.py",
               "urllib.parse.unquote / UTF-8 'replace' decoding modelled in Base/Utf8.v"]


def gen_cases(rng, tier):
    n = 4000 if tier == "quick" else 60000
    styles = G.all_styles()
    cases = []
    for i in range(n):
        ln = G.gen_line(rng, styles[i % len(styles)])
        cases.append(ln)
    return cases


def valid_case(c):
    try:
        st = c["st"]
        if st["kv"] not in G.KVS or st["fsep"] not in G.FSEPS:
            return False
        if len(c["cols"]) != 6 or any(not isinstance(x, str) for x in c["cols"]):
            return False
        ks = [k for k, _ in c["attrs"]]
        return len(set(ks)) == len(ks) and all(c is None or (isinstance(c, int) and c >= 0) for c in (c["s"], c["e"]))
    except Exception:
        return False


def spaced_line(ln):
    if ln["extras"] or any((not c) or any(ch.isspace() for ch in c) for c in ln["cols"]):
        return None
    c = ln["cols"]
    fields = [c[0], c[1], c[2], G.coord_str(ln["s"]), G.coord_str(ln["e"]), c[3], c[4], c[5]]
    a = G.render_attrs(ln["st"], ln["attrs"])
    sep = "  " if len(a) % 2 else " "
    return "\n " + sep.join(fields) + ((sep + a) if a else "") + "  \n"


def parse(line, **kw):
    from gffutils.feature import feature_from_line
    try:
        f = feature_from_line(line, keep_order=True, **kw)
        o = G.feature_obs(f)
        if not G.obs_ok(o):
            return ["err", "Other"]
        return ["ok", o]
    except Exception as ex:
        return ["err", L.err_class(ex)]


def run_impl(ln):
    line = G.render_line(ln)
    out = {"line": line, "res": parse(line)}
    sl = spaced_line(ln)
    if sl is not None:
        out["sline"] = sl
        out["sres"] = parse(sl, strict=False)
    return out


def coq_case(ln, o):
    oz = lambda v: L.opt(v, L.z, "Z")
    c = ln["cols"]
    if "sline" in o:
        spaced = "(Some (%s, %s))" % (L.s(o["sline"]), L.res(o["sres"], G.coq_fobs))
    else:
        spaced = "None"
    return "CLine %s %s %s %s %s %s %s %s %s %s %s %s %s %s" % (
        G.coq_style(ln["st"]), L.s(c[0]), L.s(c[1]), L.s(c[2]), oz(ln["s"]), oz(ln["e"]), L.s(c[3]), L.s(c[4]),
        L.s(c[5]), G.coq_attrs(ln["attrs"]), L.ss(ln["extras"]), L.s(o["line"]), L.res(o["res"], G.coq_fobs), spaced)


def labels(ln, o):
    st = ln["st"]
    yield "kv=" + st["kv"]
    yield "fsep=%r" % st["fsep"]
    yield "nattrs=%d" % len(ln["attrs"])
    yield "parse=" + o["res"][0]
    if "sline" in o:
        yield "spaced"
    if ln["extras"]:
        yield "extras"
    if any(any(c in G.TO_QUOTE for c in v) for _, vs in ln["attrs"] for v in vs):
        yield "has-reserved-char"


def nontrivial_key(ln, o):
    if not ln["attrs"]:
        return None
    st = ln["st"]
    return (st["kv"], st["fsep"], st["trailing"], st["repeated"], len(ln["attrs"]),
            any(len(vs) > 1 for _, vs in ln["attrs"]), any(not vs for _, vs in ln["attrs"]), bool(ln["extras"]),
            "sline" in o)


def explain(ln, o):
    return "feature_from_line(line) / str(feature) differ from the line's own columns, attributes or text"
