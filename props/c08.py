"""C08 — print -> parse round trip for attribute mappings under every dialect; parsing is total."""
import itertools
import coqlit as L
from props import grammar as G

COQ_CORR = "Corr.C08"
GEN_DEPS = ["GenConst.v"]
EXTRA_TARGETS = ["Examples/C08_inhabited"]
SHARD = 400
RULE = ("round trips: attribute mappings (word-like keys, 1..3 non-empty values over an adversarial unicode alphabet "
        "incl. tab/newline/%;=&,/controls/unicode whitespace) x all 48 dialect dictionaries (3 separators x trailing x "
        "kvsep '='/' ' x quoted x repeated x fmt gff3/gtf) with random column/extras content; totality: every string up "
        "to a length bound over the structural alphabet ; = \" , % space a A 2 is run through the real parser in both "
        "paths (all of them screened for exceptions in Python, a seeded sample and every raising input compared with the "
        "model in Coq) plus random longer strings.  non-trivial = mapping with a reserved/structural character or a "
        "multi-valued key; distinct by (dialect, #keys, multi?, reserved?)")
ASSUMPTIONS = ["urllib.parse.unquote and UTF-8 'replace' decoding modelled in Base/Utf8.v (tied by this correspondence)",
               "re \\w table (Base/WordTable.v) checked against CPython by tools/selfcheck.py"]

ALPHA = list(';="' + ",% aA2")


def all_dialects():
    out = []
    for fmt in ("gff3", "gtf"):
        for fsep in G.FSEPS:
            for trailing in (False, True):
                for kvsep in ("=", " "):
                    for quoted in (False, True):
                        for rep in (False, True):
                            out.append({"leading semicolon": False, "trailing semicolon": trailing,
                                        "quoted GFF2 values": quoted, "field separator": fsep, "keyval separator": kvsep,
                                        "multival separator": ",", "fmt": fmt, "repeated keys": rep, "order": []})
    return out


DIALECTS = all_dialects()
VAL_POOL = G.PLAIN * 2 + G.STRUCT + G.UNI + ["&", "\x00", "\x1f", "\x1c", "é"]


def gen_key(rng, used):
    for _ in range(50):
        k = rng.choice("abKZ_gT") + "".join(rng.choice("abKZ_09.-") for _ in range(rng.choice([0, 1, 3, 7])))
        if rng.random() < 0.3:
            k = rng.choice(["ID", "Name", "Parent", "gene_id", "transcript_id", "Note", "Dbxref"])
        if k not in used:
            used.add(k)
            return k
    k = "k%d" % len(used)
    used.add(k)
    return k


def gen_mapping(rng, gtf_clean):
    used = set()
    m = []
    for _ in range(rng.choice([1, 1, 2, 3, 5])):
        k = gen_key(rng, used)
        vs = []
        for _ in range(rng.choice([1, 1, 1, 2, 3])):
            while True:
                v = "".join(rng.choice(VAL_POOL) for _ in range(rng.choice([1, 1, 2, 3, 6, 12])))
                if gtf_clean:
                    v = "".join(c for c in v if c not in ';",' and not (ord(c) < 32 or 127 <= ord(c) <= 159))
                if v:
                    break
            vs.append(v)
        m.append([k, vs])
    return m


def gen_cases(rng, tier):
    cases = []
    nround = 6000 if tier == "quick" else 60000
    for i in range(nround):
        D = dict(DIALECTS[i % len(DIALECTS)])
        gtf = D["fmt"] == "gtf"
        m = gen_mapping(rng, gtf and rng.random() < 0.9)
        r = rng.random()
        if r < 0.4:
            D["order"] = [k for k, _ in m]
        elif r < 0.7:
            D["order"] = []
        else:
            # only some of the keys are listed, in an order of their own (and a key the mapping does not have)
            ks = [k for k, _ in m]
            rng.shuffle(ks)
            D["order"] = ks[:rng.randrange(0, len(ks) + 1)] + (["zz_absent"] if rng.random() < 0.3 else [])
        extras = [rng.choice(["x", "", "a b", "1;2", "é"]) for _ in range(rng.choice([0, 0, 0, 1, 2]))]
        cases.append({"k": "round", "D": D, "cols": [G.gen_col(rng) for _ in range(6)], "s": G.gen_coord(rng),
                      "e": G.gen_coord(rng), "m": m, "extras": extras, "toggle": i % 50 == 7, "ko": i % 3 == 1})
    # totality
    maxlen = 4 if tier == "quick" else 5
    strings = [""]
    for n in range(1, maxlen + 1):
        strings.extend("".join(t) for t in itertools.product(ALPHA, repeat=n))
    cases.append({"k": "screen", "maxlen": maxlen + (2 if tier == "quick" else 1)})
    sample = strings if tier != "quick" else [s for s in strings if len(s) <= 3] + rng.sample(strings, 2500)
    for s in sample:
        cases.append({"k": "infer", "s": s})
    for i, s in enumerate(rng.sample(strings, 3000 if tier == "quick" else 30000)):
        cases.append({"k": "with", "D": DIALECTS[(i * 7) % len(DIALECTS)], "s": s})
    for s0 in ['0', '123', '1e5', 'null', 'true', '"abc"', '[1, 2]', '{"ID": "gene1"}', '{"ID":["g"]}', 'ID="g1";Alias="a,b,c"', 'ID="g1"',
               'a="2";A="2,2"', 'note "alpha;beta"; gene_id "g1"; transcript_id "t1";', 'Note=binds DNA, RNA;ID=x', 'ID=x;Note=a, b', '.', '""', '[]', '{}']:
        cases.append({"k": "infer", "s": s0})
        for i in (0, 5, 19, 24, 33):
            cases.append({"k": "with", "D": DIALECTS[i], "s": s0})
    nrand = 1500 if tier == "quick" else 30000
    pool = ALPHA * 3 + ["\t", "é", " ", " ", "b", "=", ";", "%", "C", "3", "9", "E"]
    for i in range(nrand):
        s = "".join(rng.choice(pool) for _ in range(rng.choice([5, 8, 13, 21, 40])))
        cases.append({"k": "infer", "s": s})
        cases.append({"k": "with", "D": DIALECTS[i % len(DIALECTS)], "s": s})
    return cases


def valid_case(c):
    try:
        if c["k"] == "round":
            ks = [k for k, _ in c["m"]]
            return (G.dialect_ok(c["D"]) and len(set(ks)) == len(ks) and len(c["cols"]) == 6
                    and all(isinstance(x, str) for x in c["cols"])
                    and all(x is None or (isinstance(x, int) and x >= 0) for x in (c["s"], c["e"])))
        if c["k"] == "with":
            return G.dialect_ok(c["D"])
        return c["k"] in ("infer", "screen")
    except Exception:
        return False


def lists_of_str(quals):
    return all(isinstance(k, str) and isinstance(v, list) and all(isinstance(x, str) for x in v)
               for k, v in quals._d.items())


def run_impl(c):
    from gffutils import parser
    from gffutils.feature import Feature, feature_from_line
    from gffutils.attributes import Attributes
    if c["k"] == "round":
        D = c["D"]
        if c.get("toggle"):
            # printing must not depend on what was printed earlier in this process: print a feature full of reserved
            # characters with constants.ignore_url_escape_characters switched on, then switch it off again
            from gffutils import constants
            constants.ignore_url_escape_characters = True
            try:
                str(Feature(attributes={"Note": ["a;b=c,d%e&f\tg\nh\x01"]}, dialect=dict(DIALECTS[0])))
            except Exception:
                pass
            finally:
                constants.ignore_url_escape_characters = False
        try:
            a = Attributes()
            for k, vs in c["m"]:
                a[k] = list(vs)
            conv = lambda v: "." if v is None else v
            col = c["cols"]
            f = Feature(seqid=col[0], source=col[1], featuretype=col[2], start=conv(c["s"]), end=conv(c["e"]),
                        score=col[3], strand=col[4], frame=col[5], attributes=a, extra=list(c["extras"]), dialect=D,
                        keep_order=bool(c.get("ko")))
            line = str(f)
        except Exception as ex:
            return {"line": ["err", L.err_class(ex)], "re": ["err", "Other"]}
        try:
            g = feature_from_line(line, dialect=D, keep_order=bool(c.get("ko")))
            o = G.feature_obs(g)
            re_ = ["ok", o] if G.obs_ok(o) else ["err", "Other"]
        except Exception as ex:
            re_ = ["err", L.err_class(ex)]
        return {"line": ["ok", line], "re": re_}
    if c["k"] == "screen":
        # every string up to maxlen through both paths: only "does it raise / are these lists of strings"
        bad = []
        n = 0
        ds = [DIALECTS[i] for i in (0, 5, 10, 19, 24, 33, 46)]
        for ln in range(0, c["maxlen"] + 1):
            for t in itertools.product(ALPHA, repeat=ln):
                s = "".join(t)
                n += 1
                try:
                    q, d = parser._split_keyvals(s)
                    if not lists_of_str(q):
                        bad.append(["infer", s])
                except Exception:
                    bad.append(["infer", s])
                d0 = ds[n % len(ds)]
                try:
                    q, d = parser._split_keyvals(s, dialect=d0)
                    if not lists_of_str(q):
                        bad.append(["with", s, d0])
                except Exception:
                    bad.append(["with", s, d0])
                if len(bad) > 20:
                    return {"screened": n, "bad": bad}
        return {"screened": n, "bad": bad}
    try:
        if c["k"] == "infer":
            q, d = parser._split_keyvals(c["s"])
            d = dict(d, order=list(d["order"]))
            if not lists_of_str(q) or not G.dialect_ok(d):
                return {"res": ["err", "Other"]}
            # the same text as the ninth column of a line must parse to the same mapping and dialect (whatever it looks
            # like - a number, a JSON literal ...): feature_from_line is the way attribute text normally arrives
            if "\t" not in c["s"] and "\n" not in c["s"] and "\r" not in c["s"]:
                f = feature_from_line("chr1\tsrc\tgene\t1\t9\t.\t+\t.\t" + c["s"])
                fd = dict(f.dialect, order=list(f.dialect["order"]))
                if not lists_of_str(f.attributes) or [[k, list(v)] for k, v in f.attributes._d.items()] != [[k, list(v)] for k, v in q._d.items()] \
                        or fd != d:
                    return {"res": ["err", "Other"]}
            return {"res": ["ok", [[[k, list(v)] for k, v in q._d.items()], d]]}
        q, d = parser._split_keyvals(c["s"], dialect=c["D"])
        if not lists_of_str(q):
            return {"res": ["err", "Other"]}
        if "\t" not in c["s"] and "\n" not in c["s"] and "\r" not in c["s"]:
            f = feature_from_line("chr1\tsrc\tgene\t1\t9\t.\t+\t.\t" + c["s"], dialect=c["D"])
            if not lists_of_str(f.attributes) or [[k, list(v)] for k, v in f.attributes._d.items()] != [[k, list(v)] for k, v in q._d.items()]:
                return {"res": ["err", "Other"]}
        return {"res": ["ok", [[k, list(v)] for k, v in q._d.items()]]}
    except Exception as ex:
        return {"res": ["err", L.err_class(ex)]}


def coq_case(c, o):
    oz = lambda v: L.opt(v, L.z, "Z")
    if c["k"] == "round":
        col = c["cols"]
        return "CRound %s %s %s %s %s %s %s %s %s %s %s %s %s %s" % (
            G.coq_dialect(c["D"]), L.s(col[0]), L.s(col[1]), L.s(col[2]), oz(c["s"]), oz(c["e"]), L.s(col[3]),
            L.s(col[4]), L.s(col[5]), G.coq_attrs(c["m"]), L.ss(c["extras"]), L.b(bool(c.get("ko"))), L.res(o["line"], L.s),
            L.res(o["re"], G.coq_fobs))
    if c["k"] == "screen":
        # a raising input found by the Python-side screen is handed to Coq as a failing CInfer/CWith case
        if o["bad"]:
            b = o["bad"][0]
            if b[0] == "infer":
                return "CInfer %s (Err EOther)" % L.s(b[1])
            return "CWith %s %s (Err EOther)" % (G.coq_dialect(b[2]), L.s(b[1]))
        return "CInfer (@nil N) (Ok (@nil (str * list str), default_dialect))"
    if c["k"] == "infer":
        return "CInfer %s %s" % (L.s(c["s"]), L.res(o["res"], lambda r: "(%s, %s)" % (G.coq_attrs(r[0]), G.coq_dialect(r[1]))))
    return "CWith %s %s %s" % (G.coq_dialect(c["D"]), L.s(c["s"]), L.res(o["res"], G.coq_attrs))


def labels(c, o):
    yield "kind=" + c["k"]
    if c["k"] == "round":
        D = c["D"]
        yield "fmt=" + D["fmt"]
        yield "round/reparse=" + o["re"][0]
        if any(any(ch in G.TO_QUOTE for ch in v) for _, vs in c["m"] for v in vs):
            yield "round/has-reserved-char"
    elif c["k"] == "screen":
        yield "screened-strings=%d" % o["screened"]
    else:
        yield c["k"] + "/" + o["res"][0]
        yield "len=%d" % min(len(c["s"]), 10)


def nontrivial_key(c, o):
    if c["k"] == "round":
        D = c["D"]
        res = any(any(ch in G.TO_QUOTE + '"' for ch in v) for _, vs in c["m"] for v in vs)
        multi = any(len(vs) > 1 for _, vs in c["m"])
        if not (res or multi):
            return None
        return (D["fmt"], D["field separator"], D["trailing semicolon"], D["keyval separator"],
                D["quoted GFF2 values"], D["repeated keys"], len(c["m"]), multi, res)
    if c["k"] in ("infer", "with") and len(c["s"]) >= 3:
        return (c["k"], c["s"][:6])
    return None


def explain(c, o):
    return ("printing a Feature and re-parsing it with the same dialect did not give back the mapping/columns, or the "
            "printed form is not a single 9(+extra)-column line, or the attribute parser raised")
