"""C15 — interfeatures, introns and splice sites have exact gap geometry."""
import copy
import zlib
import itertools
import coqlit as L
from props import imp

COQ_CORR = "Corr.C15"
GEN_DEPS = ["GenBins.v"]
EXTRA_TARGETS = ["Examples/C15_inhabited"]
SHARD = 120
RULE = ("ordered feature lists of 1-8 features with gaps / adjacency / overlap / nesting / seqid changes / mixed strands "
        "(every list of <= 3 (thorough: 4) features over 6 positions x 2 seqids x 2 strands), attribute sets with shared and "
        "distinct keys, numeric and non-numeric values, several ID values; new_featuretype given or not, merge_attributes "
        "on/off, numeric_sort on/off, update_attributes; transcripts with 1-6 exons on either strand for create_introns and "
        "create_splice_sites (via gene -> transcript -> exon databases and via parent_featuretype).  non-trivial = a list "
        "yielding at least one interfeature; distinct by (geometry pattern, flags)")
ASSUMPTIONS = ["numeric_sort: float() is modelled on plain decimals (<= 15 digits); other numeric-looking strings are out of domain",
               "introns/splice sites of several transcripts are compared as multisets (transcripts are visited in database order)"]


def feat(i, seqid, s, e, strand="+", type_="exon", attrs=None):
    return imp.mkfeat(seqid=seqid, source="src", type_=type_, s=s, e=e, strand=strand,
                      attrs=attrs if attrs is not None else [["ID", ["f%d" % i]]])


VALS = ["1", "2", "10", "9", "4.2", "5", "5.0", "-3", "a", "b", "x1", "é", "10a"]
# different spellings of equal numbers: the union keeps every spelling
NUMV = ["5", "5.0", "10", "10.0", "10.00", "05", "9", "-3", "-3.0", "4.2"]


def gen_attrs(rng, i):
    a = []
    if rng.random() < 0.85:
        a.append(["ID", ["f%d" % i] if rng.random() < 0.9 else ["f%d" % i, "alt%d" % i]])
    if rng.random() < 0.6:
        a.append(["Parent", [rng.choice(["t1", "t2"])]])
    if rng.random() < 0.5:
        pool = NUMV if rng.random() < 0.5 else VALS[:8]
        a.append(["exon_number", sorted(set(rng.choice(pool) for _ in range(rng.choice([1, 1, 2, 3]))))])
    if rng.random() < 0.4:
        a.append(["Note", sorted(set(rng.choice(VALS) for _ in range(rng.choice([1, 2, 3]))))])
    rng.shuffle(a)
    return a


def gen_cfg(rng):
    return {"newft": rng.choice([None, None, "intron", "gap"]), "merge": rng.random() < 0.75, "numeric": rng.random() < 0.5,
            "update": rng.choice([[], [], [["Parent", ["zz"]]], [["ID", ["fixed"]], ["k", ["v"]]]])}


def gen_cases(rng, tier):
    cases = []
    kmax = 3 if tier == "quick" else 4
    IV = [(s, e) for s in range(1, 7) for e in range(s, 7)]
    n = 0
    for k in range(1, kmax + 1):
        for combo in itertools.product(IV, repeat=k):
            n += 1
            if tier == "quick" and k == 3 and n % 4:
                continue
            if tier == "thorough" and k == 4 and n % 6:
                continue
            fs = [feat(i, "chr1" if (n >> i) & 1 == 0 or k < 2 else "chr2", s, e, strand="+" if (n >> (i + 3)) & 1 == 0 else "-")
                  for i, (s, e) in enumerate(combo)]
            cases.append({"k": "inter", "cfg": {"newft": None if n % 2 else "gap", "merge": True, "numeric": False, "update": []}, "feats": fs})
    nr = 1200 if tier == "quick" else 20000
    for i in range(nr):
        k = rng.choice([2, 3, 4, 5, 8])
        pos = rng.randrange(1, 50)
        fs = []
        seqid = "chr1"
        for j in range(k):
            if rng.random() < 0.15:
                seqid = rng.choice(["chr1", "chr2"])
                pos = rng.randrange(1, 50)
            s = max(1, pos + rng.choice([-5, -1, 0, 1, 2, 2, 10, 30]))
            e = s + rng.choice([0, 1, 5, 20])
            pos = e
            fs.append(imp.mkfeat(seqid=seqid, source=rng.choice(["src", "s2"]), type_=rng.choice(["exon", "exon", "gene"]), s=s, e=e,
                                 score=rng.choice([".", "5"]), strand=rng.choice(["+", "+", "-", "."]), frame=rng.choice([".", "0"]),
                                 attrs=gen_attrs(rng, j)))
        cases.append({"k": "inter", "cfg": gen_cfg(rng), "feats": fs})
    nt = 200 if tier == "quick" else 3000
    for i in range(nt):
        ts = []
        for t in range(rng.choice([1, 1, 2, 3])):
            strand = rng.choice(["+", "-", "+", "-", "."])
            pos = rng.randrange(1, 100)
            exons = []
            for j in range(rng.choice([1, 2, 3, 4, 6])):
                s = pos + rng.choice([1, 2, 3, 10, 40])          # strictly increasing starts (no ties for ORDER BY start)
                e = s + rng.choice([0, 1, 9, 30])
                pos = max(pos + 1, e + rng.choice([-3, 0, 0, 1, 5]))
                pos = max(pos, s)
                exons.append({"s": s, "e": e, "num": str(j + 1) if rng.random() < 0.8 else rng.choice(["10", "a"])})
            ts.append({"strand": strand, "exons": exons})
        cases.append({"k": "introns", "ts": ts, "merge": rng.random() < 0.8, "numeric": rng.random() < 0.5,
                      "via": rng.choice(["grandparent", "parent"])})
    # the same through a whole database: the model imports the features, picks transcripts and exons itself
    # (Model/Introns.v) - several genes, transcripts under two genes, exons shared by transcripts, children that are not
    # exons, exons directly under a gene
    for i in range(200 if tier == "quick" else 3000):
        cases.append({"k": "introns_db", "feats": gen_hierarchy(rng), "merge": rng.random() < 0.8, "numeric": rng.random() < 0.4,
                      "via": rng.choice(["grandparent", "parent"])})
    return cases


def gen_hierarchy(rng):
    feats = []
    # a third of the files sit on a bin boundary (2^17, 2^20): the .bin of introns and two-base sites then differs from the
    # bin of the features they are cut from
    pos = rng.choice([rng.randrange(1, 60), rng.randrange(1, 60), (1 << 17) - rng.randrange(0, 120), (1 << 20) - rng.randrange(0, 120)])
    ngenes = rng.choice([1, 1, 2])
    eid = 0
    tids_by_gene = []
    for g in range(ngenes):
        strand = rng.choice(["+", "-", "."])
        feats.append(imp.mkfeat(seqid="chr1", source="src", type_="gene", s=1, e=2000000, strand=strand, attrs=[["ID", ["g%d" % g]]]))
        tids = []
        for t in range(rng.choice([1, 1, 2, 3])):
            tid = "g%d.t%d" % (g, t)
            tids.append(tid)
            parents = ["g%d" % g]
            if g > 0 and rng.random() < 0.25:
                parents.append("g0")                     # a transcript under two genes is visited once per gene
            feats.append(imp.mkfeat(seqid="chr1", source="src", type_=rng.choice(["mRNA", "mRNA", "ncRNA"]), s=1, e=2000000,
                                    strand=rng.choice([strand, strand, "+", "-"]), attrs=[["ID", [tid]], ["Parent", parents]]))
        tids_by_gene.append(tids)
        for x in range(rng.choice([0, 1, 2, 3, 5, 7])):
            eid += 1
            s = pos + rng.choice([1, 2, 3, 10, 40])       # strictly increasing starts over the whole file
            e = s + rng.choice([0, 1, 9, 30])
            pos = max(s, e + rng.choice([-3, 0, 0, 1, 5]))
            ps = [rng.choice(tids)]
            if len(tids) > 1 and rng.random() < 0.4:
                ps = sorted(set(ps + [rng.choice(tids)]))
            if rng.random() < 0.1:
                ps = ["g%d" % g]                            # an exon directly under the gene
            attrs = ([["ID", ["x%d" % eid]]] if rng.random() < 0.92 else []) + [["Parent", ps]]
            if rng.random() < 0.7:
                attrs.append(["exon_number", [rng.choice([str(x + 1), str(x + 1), "10", "a"])]])
            feats.append(imp.mkfeat(seqid=rng.choice(["chr1"] * 9 + ["chr2"]), source="src", type_="exon", s=s, e=e,
                                    strand=rng.choice([strand, strand, "+"]), attrs=attrs))
            if rng.random() < 0.3:
                feats.append(imp.mkfeat(seqid="chr1", source="src", type_="CDS", s=s, e=e, strand=strand, frame="0",
                                        attrs=[["Parent", [ps[0]]]]))
    if rng.random() < 0.6:
        rng.shuffle(feats)                                  # file order is not start order (ORDER BY start has to do the work)
    return feats


def valid_case(c):
    try:
        if c["k"] == "inter":
            if not c["feats"]:
                return False
            for f in c["feats"]:
                if f["s"] is None or f["e"] is None or not (1 <= f["s"] <= f["e"]):
                    return False
                keys = [k for k, _ in f["attrs"]]
                if len(set(keys)) != len(keys) or any(not k.isidentifier() for k in keys):
                    return False
                if any(not v for _, vs in f["attrs"] for v in vs) or any(not vs for _, vs in f["attrs"]):
                    return False
                if not all(f[k] for k in ("seqid", "source", "type", "strand", "score", "frame")):
                    return False
            cfg = c["cfg"]
            if cfg["newft"] == "" or any(not vs or any(not v for v in vs) for _, vs in cfg["update"]):
                return False
            return True
        if c["k"] == "introns":
            if not c["ts"]:
                return False
            for t in c["ts"]:
                last = 0
                if not t["exons"] or t["strand"] not in ("+", "-", "."):
                    return False
                for x in t["exons"]:
                    if not (1 <= x["s"] <= x["e"]) or x["s"] <= last or not x["num"]:
                        return False
                    last = x["s"]
            return c["via"] in ("grandparent", "parent")
        if c["k"] == "introns_db":
            starts = [f["s"] for f in c["feats"] if f["type"] == "exon"]
            if len(set(starts)) != len(starts) or not c["feats"]:
                return False                               # ties under ORDER BY start are not ordered by SQL
            return c["via"] in ("grandparent", "parent") and all(f["s"] is not None and 1 <= f["s"] <= f["e"] for f in c["feats"])
        return False
    except Exception:
        return False


def shrinks(c):
    if c["k"] == "inter":
        fs = c["feats"]
        for i in range(len(fs)):
            yield dict(c, feats=fs[:i] + fs[i + 1:])
        for i, f in enumerate(fs):
            for j in range(len(f["attrs"])):
                yield dict(c, feats=fs[:i] + [dict(f, attrs=f["attrs"][:j] + f["attrs"][j + 1:])] + fs[i + 1:])
        cfg = c["cfg"]
        if cfg["update"]:
            yield dict(c, cfg=dict(cfg, update=[]))
        if cfg["numeric"]:
            yield dict(c, cfg=dict(cfg, numeric=False))
        if cfg["newft"] is not None:
            yield dict(c, cfg=dict(cfg, newft=None))
    elif c["k"] == "introns_db":
        fs = c["feats"]
        for i in range(len(fs)):
            if len(fs) > 1:
                yield dict(c, feats=fs[:i] + fs[i + 1:])
    else:
        ts = c["ts"]
        for i in range(len(ts)):
            if len(ts) > 1:
                yield dict(c, ts=ts[:i] + ts[i + 1:])
            ex = ts[i]["exons"]
            for j in range(len(ex)):
                if len(ex) > 1:
                    yield dict(c, ts=ts[:i] + [dict(ts[i], exons=ex[:j] + ex[j + 1:])] + ts[i + 1:])


def row_of(f):
    return {"id": f.id if f.id is not None else "", "seqid": f.seqid, "source": f.source, "type": f.featuretype, "s": f.start,
            "e": f.end, "score": f.score, "strand": f.strand, "frame": f.frame,
            "attrs": [[k, list(v)] for k, v in f.attributes.items()], "extra": list(f.extra), "bin": f.bin}


def rows_result(fs):
    rows = [row_of(f) for f in fs]
    if not imp.tables_ok({"rows": rows, "rels": []}):
        return ["err", "Other"]
    return ["ok", rows]


_DB = {}


def any_db():
    import gffutils
    if "db" not in _DB:
        _DB["db"] = gffutils.create_db("chr1\tsrc\tgene\t1\t2\t.\t+\t.\tID=g\n", ":memory:", from_string=True)
    return _DB["db"]


def run_impl(c):
    import gffutils
    if c["k"] == "inter":
        db = any_db()
        objs = [imp.to_feature(f) for f in c["feats"]]
        for o, f in zip(objs, c["feats"]):
            ids = dict(f["attrs"]).get("ID")
            o.id = ids[0] if ids else "noid"
        before = [(str(o), o.id) for o in objs]
        cfg = c["cfg"]
        try:
            extra = {}
            if zlib.crc32(repr(sorted(cfg.items())).encode() + str(len(objs)).encode()) % 4 == 0:
                # an attribute_func that hands back a plain dict with a bare string where there is one value: one value it is
                extra["attribute_func"] = lambda a: dict((k, (v[0] if len(v) == 1 else list(v))) for k, v in a.items())
            out = list(db.interfeatures(objs, new_featuretype=cfg["newft"], merge_attributes=cfg["merge"],
                                        numeric_sort=cfg["numeric"], update_attributes=dict(cfg["update"]) or None, **extra))
            res = rows_result(out)
        except Exception as ex:
            res = ["err", L.err_class(ex)]
        return {"out": res, "unchanged": [(str(o), o.id) for o in objs] == before, "ids": [o.id for o in objs]}
    if c["k"] == "introns_db":
        try:
            db = gffutils.create_db([imp.to_feature(f) for f in c["feats"]], ":memory:", verbose=False)
        except Exception as ex:
            return {"introns": ["err", "Other"], "sites": ["err", "Other"], "import": L.err_class(ex)}
        before = imp.dump_tables(db.conn)
        # somebody looks at the exons in transcription order first (descending start on the minus strand): what one query
        # was given does not change how a later one sorts
        for f in list(db.features_of_type("mRNA"))[:2]:
            list(db.children(f, level=1, featuretype="exon", order_by="start", reverse=True))
        kw = dict(merge_attributes=c["merge"], numeric_sort=c["numeric"])
        if c["via"] == "parent":
            kw.update(grandparent_featuretype=None, parent_featuretype="mRNA")
        out = {}
        for tag, fn in (("introns", db.create_introns), ("sites", db.create_splice_sites)):
            try:
                out[tag] = rows_result(list(fn(**kw)))
            except Exception as ex:
                out[tag] = ["err", L.err_class(ex)]
        if imp.dump_tables(db.conn) != before:
            out["introns"] = ["err", "Other"]          # the database must be unchanged
        return out
    lines = ["chr1\tsrc\tgene\t1\t5000\t.\t+\t.\tID=g1"]
    n = 0
    for ti, t in enumerate(c["ts"]):
        lo = min(x["s"] for x in t["exons"])
        hi = max(x["e"] for x in t["exons"])
        lines.append("chr1\tsrc\tmRNA\t%d\t%d\t.\t%s\t.\tID=t%d;Parent=g1" % (lo, hi, t["strand"], ti))
        for x in t["exons"]:
            n += 1
            lines.append("chr1\tsrc\texon\t%d\t%d\t.\t%s\t.\tID=x%d;Parent=t%d;exon_number=%s" % (x["s"], x["e"], t["strand"], n, ti, x["num"]))
    db = gffutils.create_db("\n".join(lines) + "\n", ":memory:", from_string=True)
    before = imp.dump_tables(db.conn)
    kw = dict(merge_attributes=c["merge"], numeric_sort=c["numeric"])
    if c["via"] == "parent":
        kw.update(grandparent_featuretype=None, parent_featuretype="mRNA")
    out = {}
    for tag, fn in (("introns", db.create_introns), ("sites", db.create_splice_sites)):
        try:
            out[tag] = rows_result(list(fn(**kw)))
        except Exception as ex:
            out[tag] = ["err", L.err_class(ex)]
    if imp.dump_tables(db.conn) != before:
        out["introns"] = ["err", "Other"]          # the database must be unchanged
    return out


def coq_cfg(cfg):
    return "(mkICfg %s %s %s %s)" % (L.opt(cfg["newft"], L.s, "str"), L.b(cfg["merge"]), L.b(cfg["numeric"]), imp.coq_attrs(cfg["update"]))


def coq_rows(r):
    return L.res(r, lambda rows: L.lst([imp.coq_row(x, x["id"], x["bin"]) for x in rows], "row"))


def coq_case(c, o):
    if c["k"] == "inter":
        rows = L.lst([imp.coq_row(f, i) for f, i in zip(c["feats"], o["ids"])], "row")
        return "CInter %s %s %s %s" % (coq_cfg(c["cfg"]), rows, coq_rows(o["out"]), L.b(o["unchanged"]))
    if c["k"] == "introns_db":
        via = "(ViaGrandparent %s)" % L.s("gene") if c["via"] == "grandparent" else "(ViaParent %s)" % L.s("mRNA")
        return "CIntronsDb %s %s %s %s %s %s" % (L.lst([imp.coq_row(f) for f in c["feats"]], "row"), via, L.b(c["merge"]),
                                                  L.b(c["numeric"]), coq_rows(o["introns"]), coq_rows(o["sites"]))
    ts = []
    n = 0
    for ti, t in enumerate(c["ts"]):
        ex = []
        for x in t["exons"]:
            n += 1
            f = imp.mkfeat(seqid="chr1", source="src", type_="exon", s=x["s"], e=x["e"], strand=t["strand"],
                           attrs=[["ID", ["x%d" % n]], ["Parent", ["t%d" % ti]], ["exon_number", [x["num"]]]])
            ex.append(imp.coq_row(f, "x%d" % n))
        ts.append("(%s, %s)" % (L.s(t["strand"]), L.lst(ex, "row")))
    return "CIntrons %s %s %s %s %s" % (L.b(c["merge"]), L.b(c["numeric"]), L.lst(ts, "(str * list row)"), coq_rows(o["introns"]),
                                        coq_rows(o["sites"]))


def labels(c, o):
    yield "kind=" + c["k"]
    if c["k"] == "inter":
        yield "n=%d" % len(c["feats"])
        cfg = c["cfg"]
        yield "merge=%s,numeric=%s,newft=%s,update=%s" % (cfg["merge"], cfg["numeric"], cfg["newft"] is not None, bool(cfg["update"]))
        yield "outputs=%s" % (min(len(o["out"][1]), 4) if o["out"][0] == "ok" else "ERR-" + o["out"][1])
    else:
        yield "transcripts=%d" % (len(c["ts"]) if c["k"] == "introns" else sum(1 for f in c["feats"] if f["type"] in ("mRNA", "ncRNA")))
        yield "via=" + c["via"]
        for tag in ("introns", "sites"):
            yield "%s=%s" % (tag, min(len(o[tag][1]), 6) if o[tag][0] == "ok" else "ERR-" + o[tag][1])


def nontrivial_key(c, o):
    if c["k"] == "inter" and o["out"][0] == "ok" and o["out"][1]:
        pat = tuple((f["seqid"], f["s"], f["e"], f["strand"]) for f in c["feats"][:4])
        return (pat, c["cfg"]["merge"], c["cfg"]["numeric"], c["cfg"]["newft"])
    if c["k"] == "introns" and o["introns"][0] == "ok" and o["introns"][1]:
        return ("introns", tuple(len(t["exons"]) for t in c["ts"]), tuple(t["strand"] for t in c["ts"]), c["merge"], c["numeric"])
    if c["k"] == "introns_db" and o["introns"][0] == "ok" and o["introns"][1]:
        return ("introns_db", tuple(f["type"][0] for f in c["feats"])[:12], c["via"], c["merge"], c["numeric"])
    return None


def explain(c, o):
    return ("interfeatures/create_introns/create_splice_sites: the yielded features (one per consecutive same-seqid pair with "
            ">= 1 base between, previous.end+1 .. next.start-1, type, strand, merged attributes, ID join) differ from the model "
            "or from the gap geometry, or the inputs/database were modified")
