"""C18 — coordinate conventions of exports: length, sequence and BED12."""
import os
import tempfile
import coqlit as L
from props import imp

COQ_CORR = "Corr.C18"
GEN_DEPS = ["GenConst.v"]
SHARD = 250
RULE = ("transcripts with 0-6 exons and 0-4 CDS (and UTRs for the thin mode) on either strand, exon lines written in "
        "ascending, descending or shuffled file order, blocks spanning the transcript or not (ValueError expected), name "
        "field present / absent, scores '.' or numeric, colours with spaces; bed12 called with the id and with the Feature "
        "(both must agree), thick / thin / custom block types; convert.to_bed12; len() on features incl. '.' coordinates; "
        "sequence(): random references over ACGTN and the IUPAC ambiguity codes in both cases, all (start,end) incl. ends of the record, both strands, use_strand on/off "
        "through pyfaidx.  non-trivial = bed12 line with >= 2 blocks or an error; distinct by (#blocks, #thick, mode, outcome)")
ASSUMPTIONS = ["pyfaidx: record[start-1:stop] is the plain slice; reverse complement by pyfaidx.complement_map (ACGTN + IUPAC codes)",
               "children ordered by start have distinct starts in the generated transcripts (ties are unordered in SQL)"]


def gen_tx(rng):
    s = rng.choice([1, 5, 100, 131000])
    n_ex = rng.choice([0, 1, 2, 3, 4, 6])
    pos = s
    exons = []
    for i in range(n_ex):
        es = pos if i == 0 and rng.random() < 0.9 else pos + rng.randrange(1, 30)
        ee = es + rng.randrange(0, 40)
        exons.append([es, ee])
        pos = ee + 1
    if len(exons) >= 1 and rng.random() < 0.2:
        # a block nested in / overlapping an earlier one: the last block by start then ends before the transcript end
        a, b = exons[rng.randrange(len(exons))]
        if b - a >= 2:
            na = a + rng.randrange(1, b - a)
            nb = rng.randrange(na, b + rng.choice([0, 0, 3]))
            exons = sorted(exons + [[na, nb]])
            exons = [x for i, x in enumerate(exons) if i == 0 or x[0] != exons[i - 1][0]]
    e = max(x[1] for x in exons) if exons and rng.random() < 0.9 else (pos + rng.randrange(0, 20))
    e = max(e, s)
    cds = []
    if exons and rng.random() < 0.7:
        inner = sorted(rng.sample(range(len(exons)), rng.randrange(1, min(4, len(exons)) + 1)))
        for j in inner:
            a, b = exons[j]
            c1 = a + rng.randrange(0, max(1, (b - a) // 2 + 1))
            c2 = rng.randrange(c1, b + 1)
            cds.append([c1, c2])
    r = rng.random()
    if exons and r < 0.1:
        exons = exons + [[e + 10, e + 25]]          # a stray exon child wholly beyond the transcript: the blocks do not span it
    elif cds and r < 0.2:
        cds = cds + [[e + 30, e + 36]]              # a stray CDS child beyond the transcript: it still bounds the thick part
    utr = []
    if exons and rng.random() < 0.4:
        utr = [[exons[0][0], exons[0][0] + rng.randrange(0, 3)]]
        if len(exons) > 1:
            utr.append([exons[-1][1] - rng.randrange(0, 3), exons[-1][1]])
    return {"s": s, "e": e, "strand": rng.choice("+-"), "exons": exons, "cds": cds, "utr": utr,
            "score": rng.choice([".", ".", "7", "0.5"]), "name": rng.choice([True, True, False]),
            "order": rng.choice(["asc", "desc", "shuffle"])}


def gen_cases(rng, tier):
    cases = []
    n = 700 if tier == "quick" else 12000
    for i in range(n):
        tx = gen_tx(rng)
        mode = rng.choice(["thick", "thick", "thick", "thin", "blocks_cds", "gene"])
        cases.append({"k": "bed", "tx": tx, "mode": mode, "color": rng.choice([None, None, "255, 0,0", " 1,2,3 "]),
                      "name_field": rng.choice(["ID", "ID", "Name", "nope"]), "seed": rng.randrange(1 << 30)})
    # block types that INCLUDE the thick type (the usage bed12's docstring recommends): 5'UTR + CDS + 3'UTR tile the
    # transcript, thick = CDS - the thick bounds then differ from the transcript's own bounds
    for i in range(max(30, n // 12)):
        s0 = rng.choice([1, 5, 100, 131000])
        a = s0 + rng.randrange(1, 40)
        b = a + rng.randrange(0, 60)
        e0 = b + rng.randrange(1, 40)
        tx = {"s": s0, "e": e0, "strand": rng.choice("+-"), "exons": [], "cds": [[a, b]], "utr": [[s0, a - 1], [b + 1, e0]],
              "score": ".", "name": True, "order": rng.choice(["asc", "desc", "shuffle"])}
        cases.append({"k": "bed", "tx": tx, "mode": "tiled", "color": None, "name_field": "ID", "seed": rng.randrange(1 << 30)})
    for i in range(n // 2):
        cases.append({"k": "tobed", "tx": gen_tx(rng), "mode": "thick", "color": None, "name_field": rng.choice(["ID", "Name", "nope"]),
                      "seed": rng.randrange(1 << 30)})
    for i in range(n):
        ln = rng.choice([1, 5, 30, 80])
        seq = "".join(rng.choice("ACGTNacgt" if i % 2 else "ACGTNacgtnYRWSKMDVHBXyrwskmdvhbx") for _ in range(ln))
        s = rng.randrange(1, ln + 1)
        e = rng.choice([s, ln, rng.randrange(s, ln + 1)])
        cases.append({"k": "seq", "seq": seq, "s": s, "e": e, "strand": rng.choice(["+", "-", "."]), "use_strand": rng.random() < 0.7})
    for i in range(n // 3):
        s = rng.choice([1, 5, 100, None])
        e = None if s is None or rng.random() < 0.1 else s + rng.randrange(0, 1000)
        cases.append({"k": "len", "s": s, "e": e})
    return cases


def valid_case(c):
    try:
        if c["k"] in ("bed", "tobed"):
            tx = c["tx"]
            if not (1 <= tx["s"] <= tx["e"]) or tx["strand"] not in "+-" or c["mode"] not in ("thick", "thin", "blocks_cds", "tiled", "gene"):
                return False
            for key in ("exons", "cds", "utr"):
                last = 0
                for a, b in tx[key]:
                    if not (1 <= a <= b) or a <= last:
                        return False
                    last = a
            return tx["order"] in ("asc", "desc", "shuffle") and bool(tx["score"])
        if c["k"] == "seq":
            return bool(c["seq"]) and all(ch in "ACGTNacgtnYRWSKMDVHBXyrwskmdvhbx" for ch in c["seq"]) and 1 <= c["s"] <= c["e"] <= len(c["seq"]) \
                and c["strand"] in ("+", "-", ".")
        if c["k"] == "len":
            return True
        return False
    except Exception:
        return False


def shrinks(c):
    if c["k"] in ("bed", "tobed"):
        tx = c["tx"]
        for key in ("exons", "cds", "utr"):
            for i in range(len(tx[key])):
                yield dict(c, tx=dict(tx, **{key: tx[key][:i] + tx[key][i + 1:]}))
        if c["color"] is not None:
            yield dict(c, color=None)
        if tx["order"] != "asc":
            yield dict(c, tx=dict(tx, order="asc"))
    elif c["k"] == "seq":
        if len(c["seq"]) > c["e"]:
            yield dict(c, seq=c["seq"][:c["e"]])
        if c["s"] > 1:
            yield dict(c, seq=c["seq"][1:], s=c["s"] - 1, e=c["e"] - 1)


_FA_DIR = [None, None]


def fasta_dir():
    import atexit, shutil
    if _FA_DIR[0] is None or _FA_DIR[1] != os.getpid() or not os.path.isdir(_FA_DIR[0]):
        base = os.environ.get("VERIF_SCRATCH")          # removed by tools/check.py when the run ends
        d = tempfile.mkdtemp(prefix="c18_", dir=base if base and os.path.isdir(base) else None)
        _FA_DIR[0], _FA_DIR[1] = d, os.getpid()
        if not base:
            atexit.register(shutil.rmtree, d, True)
    return _FA_DIR[0]


def tx_lines(c):
    import random
    tx = c["tx"]
    attrs = "ID=tx1" + (";Name=nm1" if tx["name"] else "")
    head = "\t".join(["chr1", "src", "mRNA", str(tx["s"]), str(tx["e"]), tx["score"], tx["strand"], ".", attrs])
    if c.get("mode") == "gene":
        # a single-isoform gene: blocks and thick features are the gene's grandchildren
        gattrs = "ID=g1" + (";Name=nm1" if tx["name"] else "")
        ghead = "\t".join(["chr1", "src", "gene", str(tx["s"]), str(tx["e"]), tx["score"], tx["strand"], ".", gattrs])
        head = ghead + "\n" + "\t".join(["chr1", "src", "mRNA", str(tx["s"]), str(tx["e"]), ".", tx["strand"], ".", "ID=tx1;Parent=g1"])
    kids = []
    for t, key in (("exon", "exons"), ("CDS", "cds"), ("UTR", "utr")):
        for i, (a, b) in enumerate(tx[key]):
            kids.append("\t".join(["chr1", "src", t, str(a), str(b), ".", tx["strand"], ".", "ID=%s%d;Parent=tx1" % (t, i)]))
    if tx["order"] == "desc":
        kids.reverse()
    elif tx["order"] == "shuffle":
        random.Random(c["seed"]).shuffle(kids)
    return [head] + kids


def run_impl(c):
    import gffutils
    from gffutils import convert
    from gffutils.feature import Feature
    if c["k"] == "len":
        conv = lambda v: "." if v is None else v
        try:
            return {"len": ["ok", len(Feature(start=conv(c["s"]), end=conv(c["e"])))]}
        except Exception as ex:
            return {"len": ["err", L.err_class(ex)]}
    if c["k"] == "seq":
        # the reference lives at ONE path per worker process and is rewritten for every case: what sequence() returns must
        # follow the file's current content (the index written next to it is removed with the old content)
        d = fasta_dir()
        try:
            fa = os.path.join(d, "r.fa")
            for stale in (fa, fa + ".fai"):
                if os.path.exists(stale):
                    os.unlink(stale)
            with open(fa, "w") as fh:
                fh.write(">chr1\n")
                for i in range(0, len(c["seq"]), 7):
                    fh.write(c["seq"][i:i + 7] + "\n")
            f = Feature(seqid="chr1", start=c["s"], end=c["e"], strand=c["strand"])
            try:
                return {"seq": ["ok", f.sequence(fa, use_strand=c["use_strand"])]}
            except Exception as ex:
                return {"seq": ["err", L.err_class(ex)]}
        finally:
            pass
    db = gffutils.create_db("\n".join(tx_lines(c)) + "\n", ":memory:", from_string=True)
    kw = {"name_field": c["name_field"], "color": c["color"]}
    if c["mode"] == "thin":
        kw.update(thick_featuretype=None, thin_featuretype=["UTR"])
    elif c["mode"] == "blocks_cds":
        kw.update(block_featuretype=["CDS"], thick_featuretype=["CDS"])
    elif c["mode"] == "tiled":
        kw.update(block_featuretype=["UTR", "CDS"], thick_featuretype="CDS")
    out = {}
    top = "g1" if c["mode"] == "gene" else "tx1"
    for tag, arg in (("by_id", top), ("by_feature", None)):
        try:
            out[tag] = ["ok", db.bed12(arg if arg else db[top], **kw)]
        except Exception as ex:
            out[tag] = ["err", L.err_class(ex)]
    try:
        out["to_bed12"] = ["ok", convert.to_bed12("tx1" if c["seed"] % 2 else db["tx1"], db, child_type="exon", name_field=c["name_field"])]
    except Exception as ex:
        out["to_bed12"] = ["err", L.err_class(ex)]
    return out


def kid_rows(tx, key, t):
    return [imp.coq_row(imp.mkfeat(seqid="chr1", source="src", type_=t, s=a, e=b, strand=tx["strand"],
                                   attrs=[["ID", ["%s%d" % (t, i)]], ["Parent", ["tx1"]]]), "%s%d" % (t, i))
            for i, (a, b) in enumerate(tx[key])]


def coq_case(c, o):
    if c["k"] == "len":
        r = imp.coq_row(imp.mkfeat(s=c["s"], e=c["e"], seqid=".", source=".", type_=".", strand="."))
        return "CLen %s %s" % (r, L.res(o["len"], L.z))
    if c["k"] == "seq":
        return "CSeq %s %s %s %s %s %s" % (L.s(c["seq"]), L.z(c["s"]), L.z(c["e"]), L.s(c["strand"]), L.b(c["use_strand"]), L.res(o["seq"], L.s))
    tx = c["tx"]
    top = "g1" if c.get("mode") == "gene" else "tx1"
    attrs = [["ID", [top]]] + ([["Name", ["nm1"]]] if tx["name"] else [])
    feat = imp.coq_row(imp.mkfeat(seqid="chr1", source="src", type_="gene" if top == "g1" else "mRNA", s=tx["s"], e=tx["e"], score=tx["score"],
                                  strand=tx["strand"], attrs=attrs), top)
    name = dict(attrs).get(c["name_field"])
    nm = L.opt(name, L.ss, "(list str)")
    if c["k"] == "tobed":
        return "CToBed %s %s %s %s" % (feat, L.lst(kid_rows(tx, "exons", "exon"), "row"), nm, L.res(o["to_bed12"], L.s))
    if c["mode"] in ("thick", "gene"):
        blocks, mode = kid_rows(tx, "exons", "exon"), "(ThickBy %s)" % L.lst(kid_rows(tx, "cds", "CDS"), "row")
    elif c["mode"] == "thin":
        blocks, mode = kid_rows(tx, "exons", "exon"), "(ThinBy %s)" % L.lst(kid_rows(tx, "utr", "UTR"), "row")
    elif c["mode"] == "tiled":
        (u1, u2), (c1,) = kid_rows(tx, "utr", "UTR"), kid_rows(tx, "cds", "CDS")
        blocks, mode = [u1, c1, u2], "(ThickBy %s)" % L.lst([c1], "row")
    else:
        blocks, mode = kid_rows(tx, "cds", "CDS"), "(ThickBy %s)" % L.lst(kid_rows(tx, "cds", "CDS"), "row")
    a = "CBed %s %s %s %s %s %s %s" % (feat, L.lst(blocks, "row"), mode, nm, L.opt(c["color"], L.s, "str"), L.res(o["by_id"], L.s),
                                       L.res(o["by_feature"], L.s))
    return a


def extra_cases(c, o):
    return []


def labels(c, o):
    yield "kind=" + c["k"]
    if c["k"] == "tobed":
        yield "to_bed12/" + (o["to_bed12"][0] if o["to_bed12"][0] == "ok" else o["to_bed12"][1])
    if c["k"] == "bed":
        yield "bed/mode=%s/blocks=%d/%s" % (c["mode"], min(len(c["tx"]["exons"]), 4), o["by_feature"][0] if o["by_feature"][0] == "ok" else o["by_feature"][1])
        yield "bed/file-order=" + c["tx"]["order"]
    if c["k"] == "seq":
        yield "seq/strand=%s/use=%s" % (c["strand"], c["use_strand"])
    if c["k"] == "len":
        yield "len/" + o["len"][0]


def nontrivial_key(c, o):
    if c["k"] == "bed":
        tx = c["tx"]
        if len(tx["exons"]) >= 2 or o["by_feature"][0] != "ok":
            return ("bed", len(tx["exons"]), len(tx["cds"]), c["mode"], o["by_feature"][0] if o["by_feature"][0] == "ok" else o["by_feature"][1])
    if c["k"] == "seq" and c["e"] - c["s"] >= 2:
        return ("seq", c["strand"], c["use_strand"], c["s"] == 1, c["e"] == len(c["seq"]))
    return None


def explain(c, o):
    return ("len()/sequence()/bed12() deviate from the coordinate conventions (end-start+1; bases start..end, reverse "
            "complement for '-'; chromStart=start-1, blocks relative to chromStart, thick bounds from the thick features, "
            "ValueError iff blocks do not span the feature; id form = Feature form)")
