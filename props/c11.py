"""C11 — featuretype/strand filters, ordering and counts agree with a full scan."""
import json
import coqlit as L
from props import imp

COQ_CORR = "Corr.C11"
GEN_DEPS = ["GenBins.v"]
EXTRA_TARGETS = ["Examples/C11_inhabited"]
SHARD = 25
RULE = ("databases of 2-14 features with mixed-case / non-ASCII / numeric-looking seqids, sources and scores, ties in every "
        "column, '.' coordinates and extra columns; per database ~45 queries: all_features / features_of_type x featuretype "
        "(string, list, none) x strand x order_by over all 12 valid columns (single as string, single as tuple, pairs and "
        "triples as tuple/list) x reverse; count_features_of_type for present/absent/None types; featuretypes(); seqids().  "
        "A result is accepted iff it has exactly the selected ids (each once) and is sorted by the requested keys (ties are "
        "free); an unfiltered, unordered iteration must be in input order.  non-trivial = ordered query with >= 3 rows and a "
        "tie-free first key; distinct by (order columns, string/tuple, reverse, filter kinds)")
ASSUMPTIONS = ["SQLite: NULL sorts before integers before text; text by code point (BINARY collation on UTF-8)",
               "rows with equal sort keys may come in any order"]
KEYS = ["seqid", "source", "featuretype", "start", "end", "score", "strand", "frame", "attributes", "extra", "file_order",
        "length"]
OKEY = {"seqid": "KSeqid", "source": "KSource", "featuretype": "KFtype", "start": "KStart", "end": "KEnd",
        "score": "KScore", "strand": "KStrand", "frame": "KFrame", "attributes": "KAttributes", "extra": "KExtra",
        "file_order": "KFileOrder", "length": "KLength"}
SEQIDS = ["chr1", "Chr1", "chr10", "chr2", "2", "10", "é", "Z", "chrX"]
TYPES = ["gene", "Gene", "exon", "CDS", "mRNA"]


def gen_db(rng):
    n = rng.choice([2, 3, 5, 8, 14])
    feats = []
    for i in range(n):
        s = rng.choice([1, 5, 5, 10, 100, 1000, 99])
        e = s + rng.choice([0, 0, 4, 9, 100, 1000])
        attrs = [["ID", ["f%d" % i]]]
        if rng.random() < 0.5:
            attrs.append(["Name", [rng.choice(["b", "a", "é", "B"])]])
        f = imp.mkfeat(seqid=rng.choice(SEQIDS), source=rng.choice(["src", "Src", "a", "10", "9"]), type_=rng.choice(TYPES),
                       s=s, e=e, score=rng.choice([".", "10", "9", "1e3", "0.5"]), strand=rng.choice(["+", "-", ".", "+", "-", "?", "1"]),
                       frame=rng.choice([".", "0", "1", "2"]), attrs=attrs,
                       extra=[rng.choice(["x", "y", "10"])] if rng.random() < 0.3 else [])
        if rng.random() < 0.08:
            f["s"] = f["e"] = None
        feats.append(f)
    return feats


def gen_queries(rng, feats):
    qs = []

    def ft():
        r = rng.random()
        if r < 0.5:
            return None
        if r < 0.75:
            return rng.choice(TYPES)
        return sorted(set(rng.choice(TYPES) for _ in range(rng.choice([1, 2, 3]))))

    for k in KEYS:
        for form in ("str", "tuple"):
            for rev in (False, True):
                qs.append({"q": "ord", "api": rng.choice(["all", "fot"]), "ft": ft(), "strand": rng.choice([None, None, "+", "-", ".", "?", "1", "x"]),
                           "keys": [k], "form": form, "reverse": rev})
    for _ in range(10):
        ks = [rng.choice(KEYS) for _ in range(rng.choice([2, 2, 3]))]
        qs.append({"q": "ord", "api": rng.choice(["all", "fot"]), "ft": ft(), "strand": rng.choice([None, "+"]),
                   "keys": ks, "form": rng.choice(["tuple", "list"]), "reverse": rng.random() < 0.5})
    for _ in range(4):
        qs.append({"q": "ord", "api": "all", "ft": ft(), "strand": rng.choice([None, None, "-", "?", "."]), "keys": [], "form": "none",
                   "reverse": rng.random() < 0.3})
    qs.append({"q": "ord", "api": "all", "ft": None, "strand": None, "keys": [], "form": "none", "reverse": False})
    if rng.random() < 0.15:
        # a very long featuretype collection (a whole ontology's term list, of which a few occur): one sorted answer, not
        # one per portion of the list
        long_ft = sorted(set(["a%04d" % i for i in range(0, 1900, 2)] + TYPES + ["zzz_last"]))
        qs.append({"q": "ord", "api": rng.choice(["all", "fot"]), "ft": long_ft, "strand": None, "keys": [rng.choice(["start", "end", "length"])],
                   "form": "str", "reverse": rng.random() < 0.5})
    for q in qs:
        if q["api"] == "fot" and q["ft"] is None:
            q["ft"] = rng.choice(TYPES)
    for t in [None, "gene", "exon", "nope", rng.choice(TYPES)]:
        qs.append({"q": "count", "ft": t})
    qs.append({"q": "types"})
    qs.append({"q": "seqids"})
    return qs


def gen_cases(rng, tier):
    n = 160 if tier == "quick" else 2000
    cases = []
    for _ in range(n):
        feats = gen_db(rng)
        ids = [f["attrs"][0][1][0] for f in feats]
        r = rng.random()
        if r < 0.3:
            dele = []
        elif r < 0.6:
            t = rng.choice(feats)["type"]                      # every feature of one type
            dele = [i for i, f in zip(ids, feats) if f["type"] == t]
        elif r < 0.8:
            sq = rng.choice(feats)["seqid"]                    # everything on one seqid
            dele = [i for i, f in zip(ids, feats) if f["seqid"] == sq]
        else:
            dele = [i for i in ids if rng.random() < 0.4]
        qs2 = [{"q": "types"}, {"q": "seqids"}, {"q": "count", "ft": None}, {"q": "count", "ft": rng.choice(feats)["type"]},
               {"q": "ord", "api": "all", "ft": None, "strand": None, "keys": [], "form": "none", "reverse": False},
               {"q": "ord", "api": "all", "ft": None, "strand": rng.choice(["+", "-", "?"]), "keys": ["start"], "form": "str", "reverse": False}]
        cases.append({"feats": feats, "qs": gen_queries(rng, feats), "delete": dele, "qs2": qs2 if dele else []})
    # larger tables with many equally frequent types: the query planner then prefers the featuretype index for a
    # two-type filter, so that "the order rows happen to come in" is no longer the input order
    big_types = ["gene", "mRNA", "exon", "CDS", "five_prime_UTR", "three_prime_UTR", "tRNA", "ncRNA"]
    for j in range(12 if tier == "quick" else 150):
        k = rng.choice([6, 7, 8])
        feats = []
        for i in range(rng.choice([24, 30, 40])):
            s0 = rng.randrange(1, 5000)
            feats.append(imp.mkfeat(seqid=rng.choice(SEQIDS[:2]), source="src", type_=big_types[(i * 5 + j) % k], s=s0, e=s0 + rng.randrange(0, 300),
                                    strand=rng.choice("+-"), attrs=[["ID", ["f%d" % i]]]))
        qs = []
        for _ in range(8):
            two = sorted(rng.sample(big_types[:k], 2), reverse=rng.random() < 0.5)
            for form, keys in (("str", ["file_order"]), ("tuple", ["file_order"]), ("none", []), ("str", ["start"])):
                qs.append({"q": "ord", "api": rng.choice(["all", "fot"]), "ft": two if rng.random() < 0.8 else two[0], "strand": rng.choice([None, None, "+"]),
                           "keys": keys, "form": form, "reverse": False})
        cases.append({"feats": feats, "qs": qs, "delete": [], "qs2": []})
    return cases


def valid_case(c):
    try:
        ids = [f["attrs"][0][1][0] for f in c["feats"]]
        if not ids or len(set(ids)) != len(ids):
            return False
        for f in c["feats"]:
            if f["attrs"][0][0] != "ID" or (f["s"] is None) != (f["e"] is None):
                return False
            if not all(f[k] for k in ("seqid", "source", "type", "strand", "score", "frame")):
                return False
            if any(not v for _, vs in f["attrs"] for v in vs) or any(not vs for _, vs in f["attrs"]) or any(not x for x in f["extra"]):
                return False
        if any(i not in ids for i in c.get("delete", [])):
            return False
        for q in c["qs"] + c.get("qs2", []):
            if q["q"] == "ord":
                if any(k not in KEYS for k in q["keys"]) or q["form"] not in ("str", "tuple", "list", "none"):
                    return False
                if q["form"] == "str" and len(q["keys"]) != 1:
                    return False
                if (q["form"] == "none") != (not q["keys"]):
                    return False
                if q["ft"] == "" or q["ft"] == [] or q["strand"] == "":
                    return False
                if q["api"] == "fot" and q["ft"] is None:
                    return False
            elif q["q"] not in ("count", "types", "seqids"):
                return False
        return True
    except Exception:
        return False


def shrinks(c):
    qs, feats = c["qs"], c["feats"]
    if c.get("delete"):
        yield dict(c, delete=[], qs2=[])
        for q in c["qs2"]:
            yield dict(c, qs2=[q])
        for q in qs:
            yield dict(c, qs=[q])
    if len(qs) > 1:
        for q in qs:
            yield dict(c, qs=[q], delete=[], qs2=[])
    for i in range(len(feats)):
        fid = feats[i]["attrs"][0][1][0]
        yield dict(c, feats=feats[:i] + feats[i + 1:], delete=[x for x in c.get("delete", []) if x != fid])
    for i, q in enumerate(qs):
        if q["q"] == "ord":
            if q["ft"] is not None and q["api"] != "fot":
                yield dict(c, qs=qs[:i] + [dict(q, ft=None)] + qs[i + 1:])
            if q["strand"] is not None:
                yield dict(c, qs=qs[:i] + [dict(q, strand=None)] + qs[i + 1:])
            if len(q["keys"]) > 1:
                for j in range(len(q["keys"])):
                    yield dict(c, qs=qs[:i] + [dict(q, keys=q["keys"][:j] + q["keys"][j + 1:])] + qs[i + 1:])


def run_impl(c):
    st, db = imp.run_create(c["feats"])
    if st == "err":
        return {"db": ["err", db]}
    raw = [tuple(r) for r in db.conn.execute("SELECT id, attributes, extra, rowid FROM features ORDER BY rowid")]
    t = imp.dump_tables(db.conn)
    def answer(qlist):
      out = []
      # every ordered query's iterator is requested first and consumed later, in reverse order: an iterator belongs to the
      # call that made it, whatever other queries the same object answers in between
      pending = {}
      for qi, q in enumerate(qlist):
          if q["q"] == "ord" and len(pending) < 6 and qi % 3 == 0:
              try:
                  ob = None
                  if q["form"] == "str":
                      ob = q["keys"][0]
                  elif q["form"] == "tuple":
                      ob = tuple(q["keys"])
                  elif q["form"] == "list":
                      ob = list(q["keys"])
                  kw = dict(strand=q["strand"], order_by=ob, reverse=q["reverse"])
                  pending[qi] = db.all_features(featuretype=q["ft"], **kw) if q["api"] == "all" else db.features_of_type(q["ft"], **kw)
              except Exception:
                  pass
      early = {}
      # featuretypes()/seqids() listings: several of them alive at once on the one object, advanced in lock-step (plus one
      # listing whose items nobody wants); each must still list exactly the distinct values
      listing = {}
      for qi, q in enumerate(qlist):
          if q["q"] in ("types", "seqids") and qi % 2 == 0 and len(listing) < 4:
              listing[qi] = iter(db.featuretypes() if q["q"] == "types" else db.seqids())
      if listing:
          listing[-1] = iter(db.seqids())
          got = dict((qi, []) for qi in listing)
          failed = {}
          live = dict(listing)
          while live:
              for qi in list(live):
                  try:
                      got[qi].append(next(live[qi]))
                  except StopIteration:
                      del live[qi]
                  except Exception as ex:
                      failed[qi] = L.err_class(ex)
                      del live[qi]
          for qi in listing:
              if qi >= 0:
                  early[qi] = ["err", failed[qi]] if qi in failed else ["ok", got[qi]]
      for qi in sorted(pending, reverse=True):
          try:
              early[qi] = ["ok", [f.id for f in pending[qi]]]
          except Exception as ex:
              early[qi] = ["err", L.err_class(ex)]
      for qi, q in enumerate(qlist):
        if qi in early:
            out.append(early[qi])
            continue
        try:
            if q["q"] == "ord":
                ob = None
                if q["form"] == "str":
                    ob = q["keys"][0]
                elif q["form"] == "tuple":
                    ob = tuple(q["keys"])
                elif q["form"] == "list":
                    ob = list(q["keys"])
                kw = dict(strand=q["strand"], order_by=ob, reverse=q["reverse"])
                if q["api"] == "all":
                    it = db.all_features(featuretype=q["ft"], **kw)
                else:
                    it = db.features_of_type(q["ft"], **kw)
                out.append(["ok", [f.id for f in it]])
            elif q["q"] == "count":
                n = db.count_features_of_type(q["ft"])
                it_n = sum(1 for _ in (db.all_features() if q["ft"] is None else db.features_of_type(q["ft"])))
                out.append(["ok", n] if n == it_n and isinstance(n, int) else ["err", "Other"])
            elif q["q"] == "types":
                out.append(["ok", list(db.featuretypes())])
            else:
                out.append(["ok", list(db.seqids())])
        except Exception as ex:
            out.append(["err", L.err_class(ex)])
      return out
    out = answer(c["qs"])
    out2 = []
    if c.get("delete"):
        try:
            db.delete(list(c["delete"]), make_backup=False)
            # a feature written back in place (add_relation with a child_func that changes nothing) keeps its place in file order
            left = [r["id"] for r in t["rows"] if r["id"] not in c["delete"]]
            if len(left) >= 2:
                db.add_relation(left[-1], left[0], 7, child_func=lambda parent, child: child)
            out2 = answer(c["qs2"])
        except Exception as ex:
            out2 = [["err", L.err_class(ex)] for _ in c["qs2"]]
    return {"db": ["ok", {"rows": t["rows"], "raw": [[r[0], r[1], r[2], r[3]] for r in raw]}], "qs": out, "qs2": out2}


def coq_ft(ft):
    if ft is None:
        return "FNone"
    if isinstance(ft, str):
        return "(FStr %s)" % L.s(ft)
    return "(FList %s)" % L.ss(ft)


def coq_case(c, o):
    if o["db"][0] != "ok":
        return "Case [] [] [] []"
    d = o["db"][1]
    raw = {r[0]: r for r in d["raw"]}
    rows = ["(OR %s %s %s %s)" % (imp.coq_row(r, r["id"], r["bin"]), L.s(raw[r["id"]][1] or ""), L.s(raw[r["id"]][2] or ""),
                                  L.z(raw[r["id"]][3])) for r in d["rows"]]
    def coq_qs(qlist, rlist):
        qs = []
        for q, r in zip(qlist, rlist):
            if q["q"] == "ord":
                qs.append("(QOrd %s %s %s %s %s)" % (coq_ft(q["ft"]), L.opt(q["strand"], L.s, "str"),
                                                     L.lst([OKEY[k] for k in q["keys"]], "okey"), L.b(q["reverse"]), L.res(r, L.ss)))
            elif q["q"] == "count":
                qs.append("(QCount %s %s)" % (L.opt(q["ft"], L.s, "str"), L.res(r, L.z)))
            elif q["q"] == "types":
                qs.append("(QTypes %s)" % L.res(r, L.ss))
            else:
                qs.append("(QSeqids %s)" % L.res(r, L.ss))
        return L.lst(qs, "query")
    return "Case %s %s %s %s" % (L.lst(rows, "orow"), coq_qs(c["qs"], o["qs"]), L.ss(c.get("delete", [])),
                                 coq_qs(c.get("qs2", []), o.get("qs2", [])))


def labels(c, o):
    yield "n=%d" % len(c["feats"])
    yield "deleted-after-first-queries=%d" % min(len(c.get("delete", [])), 5)
    for q, r in zip(c["qs"], o.get("qs", [])):
        if q["q"] == "ord":
            yield "ord/%s/keys=%d/%s%s" % (q["form"], len(q["keys"]), "desc" if q["reverse"] else "asc",
                                           "" if r[0] == "ok" else "/ERR=" + r[1])
        else:
            yield q["q"]


def nontrivial_key(c, o):
    keys = set()
    for q, r in zip(c["qs"], o.get("qs", [])):
        if q["q"] == "ord" and r[0] == "ok" and len(r[1]) >= 3 and q["keys"]:
            keys.add((tuple(q["keys"]), q["form"], q["reverse"], q["ft"] is not None, q["strand"] is not None))
    return tuple(sorted(keys))[:3] if keys else None


def explain(c, o):
    return ("a filtered/ordered query did not return exactly the matching features (each once) sorted by the requested "
            "column(s), or a count / DISTINCT list differs from a full scan")
