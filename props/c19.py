"""C19 — existing databases are never clobbered; read-style methods never write."""
import gc
import hashlib
import os
import shutil
import sqlite3
import tempfile
import coqlit as L
from props import imp

COQ_CORR = "Corr.C19"
GEN_DEPS = ["GenBins.v"]
SHARD = 60
RULE = ("(a) pairs (old database, new input) on one path: new ids disjoint from, overlapping with or equal to the old ones, "
        "1-6 features each, force on and off; observed: outcome class, sha256 of the file before and after, the four tables "
        "afterwards; (b) file databases built from generated gene/mRNA/exon/CDS hierarchies (overlapping exons, both strands, "
        "two seqids) and sequences of 3-12 read-style calls with generated arguments: look-up by id (present/absent), "
        "all_features/features_of_type with limit/strand/order_by, children, parents, region (three forms, "
        "completely_within), interfeatures, create_introns, create_splice_sites, merge, children_bp (merge on/off), bed12, "
        "count_features_of_type, featuretypes, seqids, iter_by_parent_childs; observed: every statement the FeatureDB "
        "connection executes (sqlite3 set_trace_callback), sha256 of the file before opening and after closing, tables, "
        "directives, meta rows and counters through a fresh connection before and after.  non-trivial = (a) old and new "
        "differ, (b) >= 3 calls of >= 2 kinds; distinct by (kind, id overlap / call kinds)")
ASSUMPTIONS = ["PARTIAL by nature: that sqlite fails the schema script before touching the file, and that no read path issues a "
               "write, is runtime behaviour; the Coq theorems are about Model/Store.v and this correspondence is what ties them "
               "to the running code",
               "statements are classified by their first keyword: SELECT and PRAGMA are reads, everything else (INSERT, UPDATE, "
               "DELETE, CREATE, DROP, BEGIN, COMMIT, ANALYZE, ...) is a write"]


def sha(path):
    with open(path, "rb") as fh:
        return hashlib.sha256(fh.read()).hexdigest()


def gen_feats(rng, n, idpool):
    out = []
    for i in range(n):
        key = rng.choice(idpool + [None])
        attrs = [] if key is None else [["ID", [key]]]
        if rng.random() < 0.4 and idpool:
            attrs.append(["Parent", [rng.choice(idpool)]])
        s = rng.choice([1, 50, 900, 131000])
        out.append(imp.mkfeat(type_=rng.choice(["gene", "mRNA", "exon"]), s=s, e=s + rng.choice([10, 99]),
                              strand=rng.choice("+-"), attrs=attrs))
    return out


def hierarchy(rng):
    feats = []
    for g in range(rng.choice([1, 2, 3])):
        seqid = rng.choice(["chr1", "chr1", "chr2"])
        strand = rng.choice("+-")
        base = 1000 * g + 1
        feats.append(imp.mkfeat(seqid=seqid, type_="gene", s=base, e=base + 900, strand=strand, attrs=[["ID", ["g%d" % g]]]))
        for t in range(rng.choice([1, 2])):
            tid = "g%d.t%d" % (g, t)
            feats.append(imp.mkfeat(seqid=seqid, type_="mRNA", s=base, e=base + 900, strand=strand,
                                    attrs=[["ID", [tid]], ["Parent", ["g%d" % g]]]))
            pos = base
            t_index = len(feats) - 1
            lo, hi = None, None
            for e in range(rng.choice([1, 2, 3, 4])):
                lo = pos if lo is None else min(lo, pos)
                ln = rng.choice([20, 50, 120])
                feats.append(imp.mkfeat(seqid=seqid, type_="exon", s=pos, e=pos + ln, strand=strand,
                                        attrs=[["Parent", [tid]]] + ([["ID", ["%s.e%d" % (tid, e)]]] if rng.random() < 0.5 else [])))
                if rng.random() < 0.4:
                    feats.append(imp.mkfeat(seqid=seqid, type_="CDS", s=pos + 2, e=pos + ln - 2, strand=strand, frame="0",
                                            attrs=[["Parent", [tid]]]))
                hi = pos + ln if hi is None else max(hi, pos + ln)
                pos += ln + rng.choice([-10, 1, 2, 40])
                pos = max(pos, base)
            if rng.random() < 0.8:
                feats[t_index]["s"], feats[t_index]["e"] = lo, hi
    return feats


def gtf_annotation(rng):
    feats = []
    for g in range(rng.choice([1, 2])):
        for t in range(rng.choice([1, 2])):
            pos = 1000 * g + 100 * t + 1
            for e in range(rng.choice([1, 2, 3])):
                ln = rng.choice([20, 50])
                feats.append(imp.mkfeat(seqid="chr1", type_=rng.choice(["exon", "exon", "CDS"]), s=pos, e=pos + ln, strand="+",
                                        attrs=[["gene_id", ["G%d" % g]], ["transcript_id", ["G%d.t%d" % (g, t)]]]))
                pos += ln + rng.choice([5, 40])
    if not any(f["type"] == "exon" for f in feats):
        feats[0]["type"] = "exon"
    return feats


CALLS = ["getitem", "getitem_absent", "all_features", "features_of_type", "children", "parents", "region", "interfeatures",
         "create_introns", "create_splice_sites", "merge", "children_bp", "children_bp_merge", "bed12", "count", "featuretypes",
         "seqids", "iter_by_parent_childs"]


FAILED_WRITES = ["failed_add_relation", "failed_delete"]


def gen_cases(rng, tier):
    cases = []
    n = 150 if tier == "quick" else 3000
    for i in range(n):
        pool_old = ["a", "b", "c", "g1"]
        mode = ["disjoint", "overlap", "equal"][i % 3]
        old = gen_feats(rng, rng.choice([1, 2, 4, 6]), pool_old)
        if mode == "disjoint":
            new = gen_feats(rng, rng.choice([1, 2, 4]), ["x", "y", "z"])
            new = [f for f in new if f["attrs"] and f["attrs"][0][0] == "ID"] or [imp.mkfeat(attrs=[["ID", ["x"]]])]
            for f in new:
                f["type"] = "region"        # autoincrement bases differ too
        elif mode == "overlap":
            new = gen_feats(rng, rng.choice([1, 2, 4]), pool_old + ["x"])
        else:
            new = [dict(f) for f in old]
        cases.append({"k": "create", "mode": mode, "old": old, "new": new, "force": i % 2 == 0, "emptied": i % 5 == 4,
                      "form": ["objects", "text", "path"][(i // 2) % 3], "pragmas": i % 4 == 1})
    m = 150 if tier == "quick" else 3000
    for i in range(m):
        calls = [{"c": rng.choice(CALLS), "r": rng.randrange(10 ** 6)} for _ in range(rng.choice([3, 5, 8, 12]))]
        if i % 3 == 2:
            # one FeatureDB object on which a write call failed half-way: the reads that follow must not make its partial
            # work permanent (the file still holds what it held when the object is closed)
            for _ in range(rng.choice([1, 2])):
                calls.insert(rng.randrange(len(calls)), {"c": rng.choice(FAILED_WRITES), "r": rng.randrange(10 ** 6)})
        case = {"k": "reads", "feats": hierarchy(rng), "calls": calls}
        case["pragmas"] = i % 5 == 2
        if i % 4 == 2:
            case["doubled"] = True
        if i % 4 == 3:
            # a database built by the GTF importer (genes and transcripts derived; no index on the bin column)
            case["gtf"] = True
            case["feats"] = gtf_annotation(rng)
            # always with a window query that takes the bin route (both bounds, completely_within) on such a database
            calls.insert(rng.randrange(len(calls) + 1), {"c": "region_cw", "r": rng.randrange(10 ** 6)})
        if i % 4 == 1:
            case["dialect_gap"] = rng.choice(["order", "order", "trailing semicolon", "repeated keys"])
        cases.append(case)
    return cases


def valid_case(c):
    return c.get("k") in ("create", "reads")


def shrinks(c):
    if c["k"] == "create":
        for key in ("old", "new"):
            fs = c[key]
            if len(fs) > 1:
                for i in range(len(fs)):
                    yield dict(c, **{key: fs[:i] + fs[i + 1:]})
    else:
        cs = c["calls"]
        if len(cs) > 1:
            for i in range(len(cs)):
                yield dict(c, calls=cs[:i] + cs[i + 1:])
        fs = c["feats"]
        if len(fs) > 1:
            for i in range(len(fs)):
                yield dict(c, feats=fs[:i] + fs[i + 1:])


def dump_file(path):
    conn = sqlite3.connect(path)
    try:
        t = imp.dump_tables(conn)
        meta = [tuple(r) for r in conn.execute("SELECT dialect, version FROM meta")]
        dirs = [tuple(r) for r in conn.execute("SELECT directive FROM directives")]
    finally:
        conn.close()
    if not imp.tables_ok(t):
        raise ValueError("tables of unexpected shape")
    return t, (meta, dirs)


def do_call(db, call, feats):
    import random
    import gffutils
    rng = random.Random(call["r"])
    ids = [f.id for f in db.all_features()]
    genes = [f.id for f in db.features_of_type("gene")] or ids
    mrnas = [f.id for f in db.features_of_type("mRNA")] or ids
    c = call["c"]
    if c == "getitem":
        return db[rng.choice(ids)]
    if c == "getitem_absent":
        return db["no such id %d" % rng.randrange(100)]
    if c == "all_features":
        return list(db.all_features(limit=rng.choice([None, ("chr1", 1, 500), "chr1:1-2000"]), strand=rng.choice([None, "+", "-"]),
                                    featuretype=rng.choice([None, "exon", ["gene", "mRNA"]]),
                                    order_by=rng.choice([None, "start", ("seqid", "end"), "length"]),
                                    completely_within=rng.random() < 0.5))
    if c == "features_of_type":
        return list(db.features_of_type(rng.choice(["exon", "gene", "nope"]), order_by=rng.choice([None, "start"])))
    if c == "children":
        return list(db.children(rng.choice(ids), level=rng.choice([None, 1, 2, 3, 4]), featuretype=rng.choice([None, "exon"])))
    if c == "parents":
        return list(db.parents(rng.choice(ids), level=rng.choice([None, 1, 2, 3, 4])))
    if c == "failed_add_relation":
        # a write that raises half-way (the caller's child_func fails): its partial work is never committed
        def boom(parent, child):
            raise KeyError("child_func failed")
        a, b = rng.choice(ids), rng.choice(ids)
        return db.add_relation(a, b, rng.choice([1, 2]), child_func=boom)
    if c == "failed_delete":
        # the second item cannot be turned into an id: delete() raises after the first DELETE statements, before its commit
        return db.delete([rng.choice(ids), None])
    if c == "region_cw":
        return list(db.region(region=("chr1", rng.choice([1, 40]), rng.choice([900, 3000])), completely_within=True))
    if c == "region":
        form = rng.choice(["tuple", "str", "feature", "kw"])
        cw = rng.random() < 0.5
        if form == "tuple":
            return list(db.region(region=("chr1", rng.choice([1, 500]), rng.choice([600, 3000])), completely_within=cw))
        if form == "str":
            return list(db.region(region="chr1:%d-%d" % (rng.choice([1, 500]), rng.choice([600, 3000])), completely_within=cw))
        if form == "feature":
            return list(db.region(region=db[rng.choice(ids)], completely_within=cw))
        return list(db.region(seqid=rng.choice(["chr1", "chr2"]), start=rng.choice([None, 100]), end=rng.choice([None, 2000]),
                              strand=rng.choice([None, "+"]), featuretype=rng.choice([None, "exon"])))
    if c == "interfeatures":
        return list(db.interfeatures(db.children(rng.choice(mrnas), featuretype="exon", order_by="start"),
                                     new_featuretype=rng.choice([None, "intron"])))
    if c == "create_introns":
        return list(db.create_introns())
    if c == "create_splice_sites":
        return list(db.create_splice_sites())
    if c == "merge":
        from gffutils import merge_criteria as mc
        crit = rng.choice([(mc.seqid, mc.overlap_end_inclusive, mc.strand, mc.feature_type),
                           (mc.seqid, mc.overlap_any_inclusive, mc.feature_type), (mc.seqid, mc.strand)])
        return list(db.merge(db.children(rng.choice(genes), featuretype="exon", order_by="start"), merge_criteria=crit))
    if c == "children_bp":
        return db.children_bp(rng.choice(genes), child_featuretype="exon", merge=False)
    if c == "children_bp_merge":
        return db.children_bp(rng.choice(genes), child_featuretype="exon", merge=True)
    if c == "bed12":
        return db.bed12(rng.choice(mrnas), name_field=rng.choice(["ID", "Name"]))
    if c == "count":
        return db.count_features_of_type(rng.choice([None, "exon", "nope"]))
    if c == "featuretypes":
        return list(db.featuretypes())
    if c == "seqids":
        return list(db.seqids())
    if c == "iter_by_parent_childs":
        return [list(x) for x in db.iter_by_parent_childs(featuretype="gene", level=rng.choice([None, 1]))]
    raise ValueError(c)


def classify(stmt):
    w = stmt.strip().split(None, 1)[0].upper() if stmt.strip() else ""
    if w == "SELECT":
        return "select"
    if w == "PRAGMA":
        return "pragma"
    return "write:" + " ".join(stmt.split())[:120]


def run_impl(c):
    import gffutils
    import warnings
    warnings.simplefilter("ignore")
    d = tempfile.mkdtemp(prefix="c19", dir="/dev/shm" if os.path.isdir("/dev/shm") else None)
    out = {}
    try:
        path = os.path.join(d, "p.db")
        if c["k"] == "create":
            try:
                db = gffutils.create_db([imp.to_feature(x) for x in c["old"]], path, merge_strategy="create_unique", verbose=False)
                db.conn.close()
                del db
                if c.get("emptied"):
                    db = gffutils.FeatureDB(path)
                    db.delete([f.id for f in db.all_features()], make_backup=False)
                    db.conn.close()
                    del db
                out["old"] = ["ok", dump_file(path)[0]]
            except Exception as ex:
                out["old"] = ["err", L.err_class(ex)]
                return out
            gc.collect()
            h0 = sha(path)
            try:
                objs = [imp.to_feature(x) for x in c["new"]]
                form = c.get("form", "objects")
                pkw = {}
                if c.get("pragmas"):
                    # non-default pragmas (another page size than the file has): a refused call still leaves every byte alone
                    from gffutils import constants
                    pkw["pragmas"] = dict(constants.default_pragmas, **{"main.page_size": 8192})
                if form == "text":
                    db = gffutils.create_db("\n".join(str(o) for o in objs) + "\n", path, from_string=True, force=c["force"],
                                            merge_strategy="create_unique", verbose=False, **pkw)
                elif form == "path":
                    src = os.path.join(d, "new.gff")
                    with open(src, "w") as fh:
                        fh.write("\n".join(str(o) for o in objs) + "\n")
                    db = gffutils.create_db(src, path, force=c["force"], merge_strategy="create_unique", verbose=False, **pkw)
                else:
                    db = gffutils.create_db(objs, path, force=c["force"], merge_strategy="create_unique", verbose=False, **pkw)
                db.conn.close()
                del db
                out["outcome"] = ["ok", None]
            except Exception as ex:
                out["outcome"] = ["err", L.err_class(ex)]
                del ex
            gc.collect()
            out["bytes_same"] = os.path.exists(path) and sha(path) == h0
            try:
                out["after"] = ["ok", dump_file(path)[0]]
            except Exception as ex:
                out["after"] = ["err", L.err_class(ex)]
            return out
        kw = {}
        if c.get("dialect_gap"):
            # a stored dialect that lacks a key (hand-written, or from an older version): opening such a file is a read
            from gffutils import constants
            kw["dialect"] = dict((k, v) for k, v in constants.dialect.items() if k != c["dialect_gap"])
        if c.get("doubled"):
            # the header written twice (two files with the same header glued together): the directives are what they are
            text = "##gff-version 3\n##species x\n##gff-version 3\n##species x\n" + "\n".join(str(imp.to_feature(x)) for x in c["feats"]) + "\n"
            db = gffutils.create_db(text, path, from_string=True, merge_strategy="create_unique", verbose=False)
        elif c.get("gtf"):
            from gffutils import constants
            gd = dict(constants.dialect)
            gd.update({"fmt": "gtf", "keyval separator": " ", "quoted GFF2 values": True, "field separator": "; ", "trailing semicolon": True})
            db = gffutils.create_db([imp.to_feature(x, gd) for x in c["feats"]], path, merge_strategy="create_unique", verbose=False,
                                    dialect=gd)
        else:
            db = gffutils.create_db([imp.to_feature(x) for x in c["feats"]], path, merge_strategy="create_unique", verbose=False, **kw)
        db.conn.close()
        del db
        gc.collect()
        before, meta0 = dump_file(path)
        h0 = sha(path)
        okw = {}
        if c.get("pragmas"):
            from gffutils import constants
            okw["pragmas"] = dict(constants.default_pragmas, **{"main.page_size": 8192})
        db = gffutils.FeatureDB(path, **okw)
        trace = []
        db.conn.set_trace_callback(trace.append)
        errs = []
        for call in c["calls"]:
            failing = call["c"] in FAILED_WRITES
            if failing:
                db.conn.set_trace_callback(None)          # its statements are writes by design; only the reads are traced
            try:
                do_call(db, call, c["feats"])     # (a "failing" write that does not raise commits, and the file differs)
            except Exception as ex:
                if not failing:
                    errs.append(L.err_class(ex))
                del ex
            if failing:
                db.conn.set_trace_callback(trace.append)
        db.conn.set_trace_callback(None)
        db.conn.close()
        del db
        gc.collect()
        after, meta1 = dump_file(path)
        kinds = []
        for s in trace:
            k = classify(s)
            if k not in kinds:
                kinds.append(k)
        out.update({"before": before, "after": after, "meta_same": meta0 == meta1, "bytes_same": sha(path) == h0,
                    "trace": kinds, "nstatements": len(trace), "errors": errs})
        return out
    finally:
        shutil.rmtree(d, ignore_errors=True)


def coq_case(c, o):
    rows = lambda fs: L.lst([imp.coq_row(x) for x in fs], "row")
    if c["k"] == "create":
        outcome = "(Ok tt)" if o.get("outcome", ["err", "Other"])[0] == "ok" else "(Err %s)" % L.ERR[o.get("outcome", ["err", "Other"])[1]]
        return "CCreate %s %s %s %s %s %s %s %s" % (rows(c["old"]), rows(c["new"]), L.b(c["force"]), L.b(bool(c.get("emptied"))), imp.res_tables(o["old"]),
                                                outcome, imp.res_tables(o.get("after", ["err", "Other"])),
                                                L.b(o.get("bytes_same", False)))
    tr = []
    for k in o["trace"]:
        tr.append("StSelect" if k == "select" else "StPragma" if k == "pragma" else "(StWrite %s)" % L.s(k[6:]))
    calls = L.lst(["(RMerge [%s])" % L.s("exon") if x["c"] in ("merge", "children_bp_merge") else
                   "RFailedWrite" if x["c"] in FAILED_WRITES else "RPure" for x in c["calls"]], "readop")
    obs = "(mkReadObs %s %s %s %s %s %s)" % (imp.coq_tables(o["before"]), imp.coq_tables(o["after"]), L.b(o["meta_same"]),
                                             L.b(o["bytes_same"]), L.lst(tr, "stmt"),
                                             L.lst([L.ERR[e] for e in o["errors"]], "err"))
    return "CReads %s %s %s %s" % (L.b(bool(c.get("gtf"))), rows(c["feats"]), calls, obs)


def labels(c, o):
    yield "kind=" + c["k"]
    if c["k"] == "create":
        yield "ids=" + c["mode"]
        yield "force=%s" % c["force"]
        yield "emptied=%s" % bool(c.get("emptied"))
        yield "new-input-as=" + c.get("form", "objects")
        yield "outcome=" + (o.get("outcome", ["?"])[0])
    else:
        for x in c["calls"]:
            yield "call=" + x["c"]
        yield "statements~%d" % (10 * (o.get("nstatements", 0) // 10))
        for e in o.get("errors", []):
            yield "raised=" + e


def nontrivial_key(c, o):
    if c["k"] == "create":
        if c["old"] == c["new"]:
            return None
        return ("create", c["mode"], c["force"], len(c["old"]), len(c["new"]))
    kinds = sorted(set(x["c"] for x in c["calls"]))
    if len(c["calls"]) < 3 or len(kinds) < 2:
        return None
    return ("reads",) + tuple(kinds)


def explain(c, o):
    if c["k"] == "create":
        return ("create_db on an existing database: without force it must raise and leave the file bytes alone; with force the "
                "file must hold exactly the new import")
    return "a read-style call issued a write statement or changed the file, its tables, directives, meta rows or counters"
