"""Shared helpers for the import properties (C02, C03, C04, C05, C10): features as JSON, the real
importer driven on Feature objects or text, table dumps, Gallina printers."""
import json
import coqlit as L


def mkfeat(id_=None, seqid="chr1", source="src", type_="gene", s=1, e=10, score=".", strand="+", frame=".",
           attrs=None, extra=None):
    return {"seqid": seqid, "source": source, "type": type_, "s": s, "e": e, "score": score, "strand": strand,
            "frame": frame, "attrs": attrs or [], "extra": extra or []}


def to_feature(d, dialect=None):
    from gffutils.feature import Feature
    from gffutils.attributes import Attributes
    a = Attributes()
    for k, vs in d["attrs"]:
        a[k] = list(vs)
    conv = lambda v: "." if v is None else v
    kw = {}
    if dialect is not None:
        kw["dialect"] = dialect
    return Feature(seqid=d["seqid"], source=d["source"], featuretype=d["type"], start=conv(d["s"]), end=conv(d["e"]),
                   score=d["score"], strand=d["strand"], frame=d["frame"], attributes=a, extra=list(d["extra"]), **kw)


CALLS = {
    0: lambda f: None,
    1: lambda f: "autoincrement:" + f.featuretype,
    2: lambda f: (f.attributes["Name"][0] if "Name" in f.attributes and len(f.attributes["Name"]) else None),
    3: lambda f: "autoincrement:%s:%s" % (f.seqid, f.featuretype),
    4: lambda f: "",
    5: lambda f: f.seqid + "|" + f.featuretype,
}


def key_py(k):
    return k[1] if k[0] == "attr" else CALLS[k[1]]


def spec_py(spec):
    """JSON id_spec -> the Python value handed to create_db"""
    if spec is None:
        return None
    t = spec["t"]
    if t == "str":
        return spec["k"]
    if t == "call":
        return CALLS[spec["n"]]
    if t == "list":
        return [key_py(k) for k in spec["ks"]]
    if t == "dict":
        out = {}
        for ft, v in spec["d"]:
            out[ft] = v[1] if v[0] == "str" else [key_py(k) for k in v[1]]
        return out
    raise ValueError(t)


def coq_keys(ks):
    return L.lst(["(KAttr %s)" % L.s(k[1]) if k[0] == "attr" else "(KCall %d%%nat)" % k[1] for k in ks], "idkey")


def coq_spec(spec, fmt="gff3"):
    # create_db: `id_spec = id_spec or <default>` -- an empty list/dict/string is replaced by the default too
    if spec is not None and ((spec["t"] == "list" and not spec["ks"]) or (spec["t"] == "dict" and not spec["d"])):
        spec = None
    if spec is None:
        if fmt == "gtf":
            return '(SDict [(%s, [KAttr %s]); (%s, [KAttr %s])])' % (L.s("gene"), L.s("gene_id"), L.s("transcript"),
                                                                     L.s("transcript_id"))
        return "(SList [KAttr %s])" % L.s("ID")
    t = spec["t"]
    if t == "str":
        return "(SList [KAttr %s])" % L.s(spec["k"])
    if t == "call":
        return "(SList [KCall %d%%nat])" % spec["n"]
    if t == "list":
        return "(SList %s)" % coq_keys(spec["ks"])
    items = []
    for ft, v in spec["d"]:
        ks = [["attr", v[1]]] if v[0] == "str" else v[1]
        items.append("(%s, %s)" % (L.s(ft), coq_keys(ks)))
    return "(SDict %s)" % L.lst(items, "(str * list idkey)")


STRAT = {"error": "SError", "warning": "SWarning", "replace": "SReplace", "create_unique": "SCreateUnique",
         "merge": "SMerge"}
FIELD = {"seqid": "FSeqid", "source": "FSource", "featuretype": "FFtype", "score": "FScore", "strand": "FStrand",
         "frame": "FFrame"}


def coq_attrs(m):
    return L.lst(["(%s, %s)" % (L.s(k), L.ss(vs)) for k, vs in m], "(str * list str)")


def oz(v):
    return L.opt(v, L.z, "Z")


def coq_row(d, id_="", bin_=None):
    return "(Rw %s %s %s %s %s %s %s %s %s %s %s %s)" % (
        L.s(id_), L.s(d["seqid"]), L.s(d["source"]), L.s(d["type"]), oz(d["s"]), oz(d["e"]), L.s(d["score"]),
        L.s(d["strand"]), L.s(d["frame"]), coq_attrs(d["attrs"]), L.ss(d["extra"]), oz(bin_))


def dump_tables(conn):
    """table content as JSON: rows in rowid order, relations, duplicates, autoincrements"""
    c = conn.cursor()
    rows = []
    for r in c.execute("SELECT id, seqid, source, featuretype, start, end, score, strand, frame, attributes, extra, bin "
                       "FROM features ORDER BY rowid"):
        r = tuple(r)
        a = json.loads(r[9]) if r[9] else {}
        ex = json.loads(r[10]) if r[10] else []
        rows.append({"id": r[0], "seqid": r[1], "source": r[2], "type": r[3], "s": r[4], "e": r[5], "score": r[6],
                     "strand": r[7], "frame": r[8], "attrs": [[k, list(v)] for k, v in a.items()], "extra": list(ex),
                     "bin": r[11]})
    rels = sorted([list(x) for x in c.execute("SELECT parent, child, level FROM relations")])
    dups = sorted([list(x) for x in c.execute("SELECT idspecid, newid FROM duplicates")])
    auto = sorted([list(x) for x in c.execute("SELECT base, n FROM autoincrements")])
    return {"rows": rows, "rels": rels, "dups": dups, "auto": auto}


def tables_ok(t):
    """only shapes the Gallina printers can express (text ids, integer/NULL coordinates, lists of strings)"""
    try:
        for r in t["rows"]:
            if not all(isinstance(r[k], str) for k in ("id", "seqid", "source", "type", "score", "strand", "frame")):
                return False
            if not all(r[k] is None or (isinstance(r[k], int) and not isinstance(r[k], bool)) for k in ("s", "e", "bin")):
                return False
            if not all(isinstance(k, str) and isinstance(v, list) and all(isinstance(x, str) for x in v)
                       for k, v in r["attrs"]):
                return False
            if not all(isinstance(x, str) for x in r["extra"]):
                return False
        return all(isinstance(p, str) and isinstance(c, str) and isinstance(l, int) for p, c, l in t["rels"])
    except Exception:
        return False


def coq_tables(t):
    rows = L.lst([coq_row(r, r["id"], r["bin"]) for r in t["rows"]], "row")
    rels = L.lst(["(Rl %s %s %s)" % (L.s(p), L.s(c), L.z(l)) for p, c, l in t["rels"]], "rel")
    dups = L.lst(["(%s, %s)" % (L.s(a), L.s(b)) for a, b in t["dups"]], "(str * str)")
    auto = L.lst(["(%s, %s)" % (L.s(a), L.z(b)) for a, b in t["auto"]], "(str * Z)")
    return "(mkTables %s %s %s %s)" % (rows, rels, dups, auto)


def res_tables(r):
    return L.res(r, coq_tables)


def run_create(feats, fmt="gff3", text=False, **kw):
    """returns ("ok", db) or ("err", class).  feats: JSON features"""
    import gffutils
    from gffutils import constants
    import warnings
    warnings.simplefilter("ignore")
    dialect = None
    if fmt == "gtf":
        dialect = dict(constants.dialect)
        dialect.update({"fmt": "gtf", "keyval separator": " ", "quoted GFF2 values": True, "field separator": "; ",
                        "trailing semicolon": True})
    try:
        objs = [to_feature(d, dialect) for d in feats]
        if text:
            # "rawcol": the attribute column as it stands in the file (e.g. a key written once per value) for this line
            lines = []
            for d, o in zip(feats, objs):
                ln = str(o)
                if d.get("rawcol") is not None:
                    ln = "\t".join(ln.split("\t")[:8] + [d["rawcol"]])
                lines.append(ln)
            data = "\n".join(lines) + "\n"
            db = gffutils.create_db(data, ":memory:", from_string=True, **kw)
        else:
            db = gffutils.create_db(objs, ":memory:", dialect=dialect, **kw)
        return ("ok", db)
    except Exception as ex:
        return ("err", L.err_class(ex))


def ids_of(it):
    return sorted(f.id for f in it)
