#!/bin/bash
# tools/sweep_benign.sh : apply every behaviour-preserving rewrite of /verif/benign to a scratch worktree of /repo HEAD and run the
# quick checks of the properties anchored in the touched files against it (VERIF_REPO).  Expected: no VIOLATION line at all.
cd ${VERIF_HOME:-/verif}
WT=${WT:-/tmp/benign_wt}
git -C /repo worktree remove --force $WT 2>/dev/null; rm -rf $WT
git -C /repo worktree add -q --detach $WT HEAD || exit 2
declare -A CHK
CHK[A]="C12 C06 C16 C07 C08"; CHK[B]="C07 C08 C09 C01 C17"; CHK[C]="C02 C03 C04 C05 C10 C19 C20 C01"
CHK[D]="C06 C11 C02 C10"; CHK[E]="C13 C14 C09 C17 C15"; CHK[F]="C16 C17 C18 C15 C07 C10 C12"
bad=0
for d in /verif/benign/*; do
  n=$(basename $d); s=${n%%-*}
  git -C $WT checkout -q -- .
  git -C $WT apply $d/patch.diff 2>/dev/null || { echo "$n DOES-NOT-APPLY"; continue; }
  for c in ${CHK[$s]}; do
    out=$(VERIF_REPO=$WT bin/check $c --tier quick 2>&1 | grep -E "^VIOLATION")
    if [ -n "$out" ]; then echo "$n $c ALARM $out"; bad=1; else echo "$n $c quiet"; fi
  done
done
git -C /repo worktree remove --force $WT; rm -rf $WT
bin/check C12 --tier quick >/dev/null 2>&1   # restore Gen/*.v for /repo
exit $bad
