#!/usr/bin/env python3
"""tools/confirm_seed.py <prop> <src dir with m1,m2,...> : confirm each seeded change in a scratch
worktree of /repo HEAD (demo passes clean, fails with the patch, pinned suite unchanged), run the
registered quick checks against it (applied to /repo, then undone) and store it under /verif/seeded/."""
import json, os, shutil, subprocess, sys

prop, src = sys.argv[1], sys.argv[2]
checks = sys.argv[3:] or [prop]
WT = os.environ.get("CONFIRM_WT", "/tmp/confirm_wt")
VH = os.environ.get("CONFIRM_VERIF", "/verif")
PY = "/venv/bin/python"
SUITE = "cd %s && PYTHONPATH=%s %s -m pytest -q -p no:cacheprovider --timeout=900 --continue-on-collection-errors 2>&1 | tail -1"


def sh(cmd):
    p = subprocess.run(cmd, shell=True, stdout=subprocess.PIPE, stderr=subprocess.STDOUT, text=True)
    return p.returncode, p.stdout


for m in sorted(os.listdir(src)):
    d = os.path.join(src, m)
    if not os.path.isfile(os.path.join(d, "patch.diff")):
        continue
    sh("git -C /repo worktree remove --force %s; rm -rf %s" % (WT, WT))
    rc, out = sh("git -C /repo worktree add -q --detach %s HEAD" % WT)
    assert rc == 0, out
    res = {}
    rc, out = sh("cd %s && PYTHONPATH=%s %s %s/demo.py" % (WT, WT, PY, d))
    res["demo_clean_exit"] = rc
    rc, out = sh("git -C %s apply %s/patch.diff" % (WT, d))
    res["applies"] = rc == 0
    if rc != 0:
        res["apply_error"] = out[-300:]
    rc, out = sh("cd %s && PYTHONPATH=%s %s %s/demo.py" % (WT, WT, PY, d))
    res["demo_patched_exit"] = rc
    res["demo_patched_tail"] = out[-300:]
    rc, out = sh(SUITE % (WT, WT, PY))
    res["suite_with_patch"] = out.strip()
    ok = res["demo_clean_exit"] == 0 and res["applies"] and res["demo_patched_exit"] != 0 and "74 passed" in res["suite_with_patch"]
    res["confirmed"] = ok
    caught = {}
    if ok:
        # the checks run against the scratch worktree (VERIF_REPO), which still carries the patch: /repo is never touched
        for c in checks:
            rc, out = sh("VERIF_REPO=%s %s/bin/check %s --tier quick 2>/dev/null | grep -E 'VIOLATION|KNOWN-FINDING'" % (WT, VH, c))
            caught[c] = out.strip().splitlines()
    sh("git -C /repo worktree remove --force %s; rm -rf %s" % (WT, WT))
    res["checks_run"] = caught
    res["caught_by"] = [c for c, lines in caught.items() if any(l.startswith("VIOLATION") for l in lines)]
    dst = "/verif/seeded/%s-%s" % (prop, m)
    print(prop, m, json.dumps(res)[:700])
    if ok:
        os.makedirs(dst, exist_ok=True)
        shutil.copy(os.path.join(d, "patch.diff"), dst)
        shutil.copy(os.path.join(d, "demo.py"), dst)
        meta = json.load(open(os.path.join(d, "meta.json"))) if os.path.exists(os.path.join(d, "meta.json")) else {}
        meta.update({"property": prop, "confirmation": res,
                     "what_i_ran": "scratch worktree of /repo HEAD: demo.py clean -> exit 0; git apply patch.diff; demo.py -> non-zero; "
                                   "pinned pytest suite -> 74 passed; then bin/check <id> --tier quick with VERIF_REPO pointing at the patched scratch worktree"})
        json.dump(meta, open(os.path.join(dst, "meta.json"), "w"), indent=1)
