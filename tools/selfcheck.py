#!/venv/bin/python
"""tools/selfcheck.py — the two character tables the string model relies on, compared EXHAUSTIVELY
(all 0x110000 code points) with the running interpreter:
  Base/PyStr.v   is_space  ==  what str.strip() strips / str.split() splits on
  Base/WordTable.v isword  ==  re \\w on str
Coq computes the maximal runs of each predicate with vm_compute; this script computes the same runs
from CPython and compares.  Exit 0 = identical."""
import os
import re
import subprocess
import sys
import tempfile

VERIF = os.path.dirname(os.path.dirname(os.path.abspath(__file__)))
THEORIES = os.path.join(VERIF, "coq", "theories")

V = r"""
From GV Require Import Base.Prelude Base.PyStr Base.WordTable.
Open Scope N_scope.
(* maximal runs [lo, hi] of a predicate over 0 .. 0x10FFFF *)
Definition scan (p : N -> bool) : list (N * N) :=
  let '(_, open, acc) :=
    N.iter 1114112 (fun st => let '(c, open, acc) := st in
                      match open, p c with
                      | None, true => (c + 1, Some c, acc)
                      | Some lo, false => (c + 1, None, (lo, c - 1) :: acc)
                      | _, _ => (c + 1, open, acc)
                      end) (0, None, []) in
  rev (match open with Some lo => (lo, 1114111) :: acc | None => acc end).
Eval vm_compute in (scan is_space).
(* isword is membership in word_ranges (sorted, disjoint: re-checked by the script): compare the data *)
Eval vm_compute in word_ranges.
"""


def runs(pred):
    out, lo = [], None
    for c in range(0x110000):
        if pred(c):
            if lo is None:
                lo = c
        elif lo is not None:
            out.append((lo, c - 1))
            lo = None
    if lo is not None:
        out.append((lo, 0x10FFFF))
    return out


def main():
    d = tempfile.mkdtemp(prefix="selfcheck", dir=os.path.join(VERIF, "build") if os.path.isdir(os.path.join(VERIF, "build")) else None)
    try:
        with open(os.path.join(d, "sc.v"), "w") as fh:
            fh.write(V)
        p = subprocess.run("ulimit -s unlimited 2>/dev/null; timeout 600 coqc -Q %s GV sc.v" % THEORIES, shell=True, cwd=d,
                           stdout=subprocess.PIPE, stderr=subprocess.STDOUT, text=True)
        if p.returncode != 0:
            print("selfcheck: coqc failed:\n" + p.stdout[-2000:])
            return 2
        blocks = re.findall(r"=\s*\[(.*?)\]\s*:\s*list \(N \* N\)", p.stdout, flags=re.S)
        if len(blocks) != 2:
            print("selfcheck: cannot parse coqc output")
            return 2
        coq = [[(int(a), int(b)) for a, b in re.findall(r"\(\s*(\d+),\s*(\d+)\s*\)", blk)] for blk in blocks]
    finally:
        import shutil
        shutil.rmtree(d, ignore_errors=True)
    word = re.compile(r"\w")
    surrogate = lambda c: 0xD800 <= c <= 0xDFFF
    py_space = runs(lambda c: (chr(c) + "x").strip() == "x" and ("x" + chr(c) + "x").split() == ["x", "x"])
    py_word = runs(lambda c: not surrogate(c) and word.match(chr(c)) is not None)
    # surrogates are not characters of any str the harness generates: compare outside them
    strip_sur = lambda rs: [(a, b) for a, b in rs if not (surrogate(a) and surrogate(b))]
    ok = True
    if coq[0] != py_space:
        print("selfcheck: is_space differs: coq-only %s python-only %s" % (sorted(set(coq[0]) - set(py_space))[:5],
                                                                           sorted(set(py_space) - set(coq[0]))[:5]))
        ok = False
    wr = coq[1]
    if not all(a <= b for a, b in wr) or not all(wr[i][1] + 1 < wr[i + 1][0] for i in range(len(wr) - 1)):
        print("selfcheck: word_ranges is not a sorted list of disjoint, non-adjacent ranges")
        ok = False
    if strip_sur(coq[1]) != strip_sur(py_word):
        print("selfcheck: isword differs: coq-only %s python-only %s" % (sorted(set(coq[1]) - set(py_word))[:5],
                                                                         sorted(set(py_word) - set(coq[1]))[:5]))
        ok = False
    print("selfcheck: is_space %d runs, isword %d runs over 0x110000 code points: %s" % (len(py_space), len(py_word),
                                                                                         "identical" if ok else "MISMATCH"))
    return 0 if ok else 1


if __name__ == "__main__":
    sys.exit(main())
