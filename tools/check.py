#!/venv/bin/python
"""bin/check <ID> [--tier quick|thorough] [--replay FILE]

One run = sync (translator) -> prove (make + Print Assumptions) -> correspond
(implementation vs model, compared inside Coq) -> findings -> verdict + evidence.
See DESIGN.md section 2.3/2.4.
"""
import argparse
import concurrent.futures as cf
import fcntl
import hashlib
import importlib
import json
import multiprocessing as mp
import os
import random
import re
import shutil
import subprocess
import sys
import time
import traceback

VERIF = os.path.dirname(os.path.dirname(os.path.abspath(__file__)))
REPO = os.environ.get("VERIF_REPO", "/repo")
sys.path.insert(0, REPO)
sys.path.insert(0, VERIF)
sys.path.insert(0, os.path.join(VERIF, "tools"))

import translate  # noqa: E402

COQ = os.path.join(VERIF, "coq")
THEORIES = os.path.join(COQ, "theories")
NPROC = int(os.environ.get("VERIF_JOBS", "16"))
ALLOWED_AXIOMS = set()   # target: every property theorem closed under the global context
HYGIENE = re.compile(r"\b(Admitted|admit|Axiom|Axioms|Parameter|Parameters|Conjecture|Unset Guard Checking|"
                     r"bypass_check|Admit Obligations)\b|type-in-type|impredicative-set")


def log(*a):
    print(*a, file=sys.stderr, flush=True)


def sh(cmd, timeout, cwd=None):
    try:
        p = subprocess.run(cmd, shell=isinstance(cmd, str), cwd=cwd, stdout=subprocess.PIPE,
                           stderr=subprocess.STDOUT, timeout=timeout, text=True)
        return p.returncode, p.stdout
    except subprocess.TimeoutExpired as ex:
        return 124, (ex.stdout or "") + "\nTIMEOUT"


class BuildLock:
    def __enter__(self):
        os.makedirs(os.path.join(VERIF, "build"), exist_ok=True)
        self.fh = open(os.path.join(VERIF, "build", ".lock"), "w")
        fcntl.flock(self.fh, fcntl.LOCK_EX)
        return self

    def __exit__(self, *a):
        fcntl.flock(self.fh, fcntl.LOCK_UN)
        self.fh.close()


def ensure_makefile():
    mk = os.path.join(COQ, "Makefile")
    cp = os.path.join(COQ, "_CoqProject")
    if not os.path.exists(mk) or os.path.getmtime(mk) < os.path.getmtime(cp):
        rc, out = sh("coq_makefile -f _CoqProject -o Makefile", 120, cwd=COQ)
        if rc != 0:
            raise RuntimeError("coq_makefile failed:\n" + out)


def make(targets, timeout=1500):
    ensure_makefile()
    return sh("timeout %d make -j%d %s 2>&1" % (timeout, NPROC, " ".join(targets)), timeout + 30, cwd=COQ)


def hygiene():
    bad = []
    for root, _, files in os.walk(THEORIES):
        for f in files:
            if f.endswith(".v"):
                txt = open(os.path.join(root, f)).read()
                txt = re.sub(r"\(\*.*?\*\)", "", txt, flags=re.S)
                for m in HYGIENE.finditer(txt):
                    bad.append("%s: %s" % (os.path.join(root, f), m.group(0)))
    return bad


# --------------------------------------------------------------------- prove
def prove(pid, mod):
    """returns dict(ok, obligations, discharged, assumptions, log, failing)"""
    res = {"ok": False, "obligations": 0, "discharged": 0, "assumptions": [], "log": "", "failing": None,
           "theorems": []}
    prop_v = os.path.join(THEORIES, "Properties", pid + ".v")
    src = open(prop_v).read()
    theorems = re.findall(r"^\s*Theorem\s+(\w+)", src, flags=re.M)
    res["theorems"] = theorems
    res["obligations"] = len(theorems)
    extra = ["theories/" + t for t in []]
    targets = ["theories/Properties/%s.vo" % pid] + ["theories/%s.vo" % t for t in getattr(mod, "EXTRA_TARGETS", [])]
    with BuildLock():
        rc, out = make(targets)
    res["log"] = out[-6000:]
    if rc != 0:
        m = re.search(r'File "([^"]+)", line (\d+)', out)
        res["failing"] = "%s:%s" % (m.group(1), m.group(2)) if m else "make failed"
        # which theorems still check?  (only when the failure is in the property file's deps we say 0)
        return res
    # Print Assumptions output: re-run coqc on the property file alone (fast), output to scratch
    scratch = os.path.join(VERIF, "build", pid)
    os.makedirs(scratch, exist_ok=True)
    tmpv = os.path.join(scratch, "PA_%s.v" % pid)
    shutil.copy(prop_v, tmpv)
    rc, out = sh("timeout 600 coqc -Q %s GV %s" % (THEORIES, tmpv), 630)
    if rc != 0:
        res["failing"] = "Properties/%s.v (assumption pass)" % pid
        res["log"] += out[-3000:]
        return res
    closed = out.count("Closed under the global context")
    axioms = re.findall(r"^\s*([\w.]+)\s*:", out.split("Axioms:", 1)[1], flags=re.M) if "Axioms:" in out else []
    res["assumptions"] = sorted(set(axioms))
    n_pa = len(re.findall(r"Print Assumptions", src))
    res["discharged"] = len(theorems) if n_pa >= len(theorems) else n_pa
    bad_ax = [a for a in res["assumptions"] if a not in ALLOWED_AXIOMS]
    if bad_ax:
        res["failing"] = "axioms outside the allow-list: %s" % bad_ax
        res["discharged"] = closed
        return res
    res["ok"] = True
    return res


# --------------------------------------------------------------- correspond
def _worker_init():
    sys.path.insert(0, REPO)
    import warnings
    warnings.simplefilter("ignore")
    # gffutils writes progress lines ("3 of 10 (30%)") to stderr during GTF imports
    sys.stderr = open(os.devnull, "w")


def _run_one(args):
    modname, case = args
    mod = importlib.import_module(modname)
    try:
        return mod.run_impl(case)
    except BaseException as ex:   # the driver itself failed: reported as a harness error
        return {"__harness_error__": "%s: %s\n%s" % (type(ex).__name__, ex, traceback.format_exc()[-1500:])}


class ImplHang(Exception):
    pass


def run_impl_all(mod, cases, timeout=9000):
    if not cases:
        return []
    ctx = mp.get_context("fork")
    chunk = max(1, min(200, len(cases) // (NPROC * 4) or 1))
    # a scratch directory the drivers may keep per-process files in for the whole run; removed here, whatever happens
    import tempfile
    scratch = tempfile.mkdtemp(prefix="verif_scratch_", dir="/dev/shm" if os.path.isdir("/dev/shm") else None)
    os.environ["VERIF_SCRATCH"] = scratch
    try:
        with ctx.Pool(min(NPROC, max(1, len(cases))), initializer=_worker_init) as pool:
            ar = pool.map_async(_run_one, [(mod.__name__, c) for c in cases], chunksize=chunk)
            try:
                return ar.get(timeout=timeout)
            except mp.TimeoutError:
                pool.terminate()
                raise ImplHang("implementation did not finish %d cases within %ds" % (len(cases), timeout))
    finally:
        shutil.rmtree(scratch, ignore_errors=True)
        os.environ.pop("VERIF_SCRATCH", None)


def coq_eval(pid, mod, cases, obs, tag):
    """returns list of verdict ints (None where a shard failed) and error text"""
    rundir = os.path.join(VERIF, "build", pid, "%s_%d" % (tag, os.getpid()))
    shutil.rmtree(rundir, ignore_errors=True)
    os.makedirs(rundir)
    shard = getattr(mod, "SHARD", 500)
    files = []
    for k in range(0, len(cases), shard):
        name = "cases_%d" % (k // shard)
        terms = [mod.coq_case(c, o) for c, o in zip(cases[k:k + shard], obs[k:k + shard])]
        with open(os.path.join(rundir, name + ".v"), "w") as fh:
            fh.write("From GV Require Import Base.Prelude %s.\nOpen Scope Z_scope.\n" % mod.COQ_CORR)
            fh.write("Definition cases : list case := [\n" + ";\n".join(terms) + "\n].\n")
            fh.write("Eval vm_compute in (map verdict cases).\n")
        files.append((k, name, len(terms)))

    def one(item):
        k, name, n = item
        rc, out = sh("ulimit -s unlimited 2>/dev/null; timeout 900 coqc -Q %s GV %s.v" % (THEORIES, name),
                     930, cwd=rundir)
        if rc != 0:
            return k, n, None, out[-2000:]
        m = re.search(r"=\s*\[(.*?)\]\s*:\s*list Z", out, flags=re.S)
        if not m:
            if re.search(r"=\s*\[\s*\]", out) or n == 0:
                return k, n, [], ""
            return k, n, None, out[-2000:]
        vals = [int(x) for x in re.findall(r"-?\d+", m.group(1))]
        if len(vals) != n:
            return k, n, None, "verdict count %d != %d\n%s" % (len(vals), n, out[-500:])
        return k, n, vals, ""

    verdicts = [None] * len(cases)
    errs = []
    with cf.ThreadPoolExecutor(NPROC) as ex:
        for k, n, vals, err in ex.map(one, files):
            if vals is None:
                errs.append(err)
            else:
                verdicts[k:k + n] = vals
    if not errs and not os.environ.get("VERIF_KEEP"):
        shutil.rmtree(rundir, ignore_errors=True)
    return verdicts, errs


def evaluate(pid, mod, cases, tag="run"):
    obs = run_impl_all(mod, cases)
    herr = [(c, o) for c, o in zip(cases, obs) if isinstance(o, dict) and "__harness_error__" in o]
    if herr:
        raise RuntimeError("implementation driver failed on %s:\n%s" % (json.dumps(herr[0][0])[:500],
                                                                        herr[0][1]["__harness_error__"]))
    verdicts, errs = coq_eval(pid, mod, cases, obs, tag)
    if errs:
        raise RuntimeError("coqc failed on a cases file:\n" + errs[0])
    return obs, verdicts


# ------------------------------------------------------------------- shrink
def generic_shrinks(x):
    """one-step smaller variants of a JSON value"""
    if isinstance(x, list):
        for i in range(len(x)):
            yield x[:i] + x[i + 1:]
        for i in range(len(x)):
            for y in generic_shrinks(x[i]):
                yield x[:i] + [y] + x[i + 1:]
    elif isinstance(x, dict):
        for k in x:
            for y in generic_shrinks(x[k]):
                d = dict(x)
                d[k] = y
                yield d
    elif isinstance(x, str):
        for i in range(len(x)):
            yield x[:i] + x[i + 1:]
    elif isinstance(x, bool):
        return
    elif isinstance(x, int):
        for y in (0, 1, x // 2, x - 1):
            if abs(y) < abs(x):
                yield y


def size_of(x):
    return len(json.dumps(x, sort_keys=True))


def shrink(pid, mod, case, code, rounds=12, width=400):
    """greedy batched shrinking: keep the verdict code, reduce the JSON size"""
    if not getattr(mod, "SHRINK", True):
        return case
    best = case
    cand_fn = getattr(mod, "shrinks", None) or generic_shrinks
    valid = getattr(mod, "valid_case", lambda c: True)
    for _ in range(rounds):
        cands = []
        seen = set()
        for c in cand_fn(best):
            key = json.dumps(c, sort_keys=True)
            if key in seen or not valid(c) or size_of(c) >= size_of(best):
                continue
            seen.add(key)
            cands.append(c)
            if len(cands) >= width:
                break
        if not cands:
            break
        try:
            _, vs = evaluate(pid, mod, cands, tag="shrink")
        except Exception as ex:   # shrinking is best effort
            log("shrink aborted:", str(ex)[:300])
            break
        hits = [c for c, v in zip(cands, vs) if v == code]
        if not hits:
            break
        best = min(hits, key=size_of)
    return best


# ------------------------------------------------------------------ findings
def load_findings(pid):
    p = os.path.join(VERIF, "known_findings.json")
    if not os.path.exists(p):
        return []
    return [f for f in json.load(open(p))["findings"] if f["property"] == pid]


def write_replay(pid, payload):
    os.makedirs(os.path.join(VERIF, "replays"), exist_ok=True)
    h = hashlib.sha1(json.dumps(payload, sort_keys=True).encode()).hexdigest()[:12]
    p = os.path.join(VERIF, "replays", "%s-%s.json" % (pid, h))
    with open(p, "w") as fh:
        json.dump(payload, fh, indent=1, sort_keys=True)
    return p


def main():
    ap = argparse.ArgumentParser()
    ap.add_argument("pid")
    ap.add_argument("--tier", default=os.environ.get("VERIF_TIER", "quick"), choices=["quick", "thorough"])
    ap.add_argument("--replay")
    ap.add_argument("--no-prove", action="store_true", help="development only: skip the proof step")
    args = ap.parse_args()
    pid = args.pid
    seed = int(os.environ.get("VERIF_SEED", "20260926"))
    t0 = time.time()
    mod = importlib.import_module("props." + pid.lower())
    violations = []     # (replay path, suffix)
    notes = []

    # 1. sync -----------------------------------------------------------------
    with BuildLock():
        tstat = translate.regenerate(os.path.join(THEORIES, "Gen"), REPO)
    gen_deps = getattr(mod, "GEN_DEPS", [])
    tie_broken = [("%s: %s" % (g, tstat[g])) for g in gen_deps if tstat.get(g, "").startswith("error")]
    gen_changed = [g for g in gen_deps if tstat.get(g) == "changed"]
    log("sync:", tstat)

    hyg = hygiene()
    if hyg:
        log("hygiene failure:", hyg)
        print("hygiene check failed: %s" % hyg[:3])
        sys.exit(2)

    # replay mode: one stored case ----------------------------------------------
    if args.replay:
        payload = json.load(open(args.replay))
        case = payload["case"]
        with BuildLock():
            rc, out = make(["theories/%s.vo" % mod.COQ_CORR.replace(".", "/")])
        if rc != 0:
            print("cannot build correspondence module:\n" + out[-2000:])
            sys.exit(2)
        obs, vs = evaluate(pid, mod, [case], tag="replay")
        print(json.dumps({"case": case, "observed": obs[0], "verdict": vs[0]}, indent=1)[:6000])
        print("verdict=%s (0 ok, 1 outside the modelled domain, 2 known class meets the spec, >=100 known finding, -1 violation)" % vs[0])
        if vs[0] == -1 or vs[0] >= 100:
            print("VIOLATION property=%s replay=%s" % (pid, args.replay))
            sys.exit(1)
        sys.exit(0)

    # 2. prove ------------------------------------------------------------------
    if args.no_prove:
        pr = {"ok": True, "obligations": 0, "discharged": 0, "assumptions": [], "log": "", "failing": None,
              "theorems": []}
    else:
        pr = prove(pid, mod)
    log("prove: ok=%s obligations=%d discharged=%d failing=%s" % (pr["ok"], pr["obligations"], pr["discharged"],
                                                                  pr["failing"]))
    if pr["ok"] and args.tier == "thorough" and not args.no_prove:
        # independent re-check of the compiled property file and everything it depends on
        rc, out = sh("timeout 1500 coqchk -silent -o -Q %s GV GV.Properties.%s 2>&1" % (THEORIES, pid), 1530, cwd=COQ)
        m = re.search(r"\* Axioms:\s*(.*?)\n\s*\n", out, flags=re.S)
        axioms = m.group(1).strip() if m else "unparsed"
        pr["coqchk"] = "rc=%d axioms=%s" % (rc, axioms)
        log("coqchk:", pr["coqchk"])
        if rc != 0 or axioms != "<none>":
            pr["ok"] = False
            pr["failing"] = "coqchk: " + pr["coqchk"] + " " + out[-500:]
    if tie_broken:
        pr["ok"] = False
        pr["failing"] = "translator (tie to source broken): " + "; ".join(tie_broken)

    # 3. correspond -----------------------------------------------------------------
    with BuildLock():
        rc, out = make(["theories/%s.vo" % mod.COQ_CORR.replace(".", "/")])
    if rc != 0:
        # the correspondence module itself depends on generated definitions that no longer build
        log(out[-3000:])
        rp = write_replay(pid, {"property": pid, "broken": "correspondence module %s does not build" % mod.COQ_CORR,
                                "log": out[-3000:], "translator": tstat})
        print("VIOLATION property=%s replay=%s no-failing-input-found" % (pid, rp))
        write_evidence(pid, args.tier, seed, mod, pr, {}, [], 1, time.time() - t0, notes)
        sys.exit(1)

    rng = random.Random(seed)
    findings = load_findings(pid)
    corpus = []
    cdir = os.path.join(VERIF, "corpus", pid)
    if os.path.isdir(cdir):
        for f in sorted(os.listdir(cdir)):
            if f.endswith(".json"):
                corpus.append(json.load(open(os.path.join(cdir, f)))["case"])
    wit = [f["witness"] for f in findings if f.get("witness") is not None]
    gen = list(mod.gen_cases(rng, args.tier))
    cases = wit + corpus + gen
    log("correspond: %d cases (%d finding witnesses, %d corpus, %d generated)" % (len(cases), len(wit), len(corpus),
                                                                                   len(gen)))
    obs, verdicts = evaluate(pid, mod, cases)

    # 4/5. findings and verdict -----------------------------------------------------------
    known_codes = {f["code"]: f for f in findings if f["status"] == "known"}
    stats = {"ok": 0, "out_of_domain": 0, "known_class_meets_spec": 0, "known_finding": 0, "mismatch": 0}
    bad = []
    known_hit = {}
    for i, (c, o, v) in enumerate(zip(cases, obs, verdicts)):
        if v == 0:
            stats["ok"] += 1
        elif v == 1:
            stats["out_of_domain"] += 1
        elif v == 2:
            stats["known_class_meets_spec"] += 1
        elif v >= 100 and v in known_codes:
            stats["known_finding"] += 1
            known_hit.setdefault(v, (c, o))
        else:
            stats["mismatch"] += 1
            bad.append((i, c, o, v))
    for f in findings:
        if f["status"] == "known":
            # replayed explicitly: its witness is among the first cases
            if f["code"] in known_hit:
                print("KNOWN-FINDING: property=%s %s %s" % (pid, f["id"], f["what"]))
            else:
                notes.append("listed finding %s no longer reproduces on its witness" % f["id"])

    if bad:
        # group by verdict code, report the smallest (after shrinking) per group
        seen_codes = set()
        for i, c, o, v in bad:
            if v in seen_codes:
                continue
            seen_codes.add(v)
            small = shrink(pid, mod, c, v)
            so, sv = evaluate(pid, mod, [small], tag="final")
            payload = {"property": pid, "case": small, "observed": so[0], "verdict": sv[0],
                       "original_case": c if small != c else None,
                       "explain": getattr(mod, "explain", lambda c, o: "")(small, so[0]),
                       "how_to_replay": "bin/check %s --replay <this file>" % pid}
            rp = write_replay(pid, payload)
            violations.append((rp, ""))
    if not pr["ok"] and not violations:
        rp = write_replay(pid, {"property": pid, "broken": pr["failing"], "theorems": pr["theorems"],
                                "log": pr["log"][-3000:], "translator": tstat,
                                "searched": "%d correspondence cases, none failing" % len(cases)})
        violations.append((rp, " no-failing-input-found"))

    dist = {}
    nontriv = set()
    for c, o in zip(cases, obs):
        try:
            for lab in mod.labels(c, o):
                dist[lab] = dist.get(lab, 0) + 1
            k = mod.nontrivial_key(c, o)
            if k is not None:
                nontriv.add(k)
        except Exception:
            pass
    cov = {"evaluations": len(cases), "distinct_nontrivial": len(nontriv),
           "rule": getattr(mod, "RULE", ""), "samples": [{"case": c, "observed": o} for c, o in
                                                         list(zip(cases, obs))[:: max(1, len(cases) // 4)][:5]],
           "input_distribution": dict(sorted(dist.items())), "verdicts": stats,
           "exhaustive": bool(getattr(mod, "EXHAUSTIVE", {}).get(args.tier, False)),
           "translator": tstat, "generated_model_changed": gen_changed}
    write_evidence(pid, args.tier, seed, mod, pr, cov, notes, len(violations), time.time() - t0, notes)
    for rp, suffix in violations:
        print("VIOLATION property=%s replay=%s%s" % (pid, rp, suffix))
    log("done %s in %.1fs: %s" % (pid, time.time() - t0, stats))
    sys.exit(1 if violations else 0)


TRUSTED = [
    "Coq 8.16.1 kernel and coqc (full .vo builds), vm_compute (no native_compute)",
    "tools/translate.py (Python ast -> Gallina for bins.py, merge_criteria.py, constants)",
    "correspondence harness: tools/check.py, tools/coqlit.py, props/*.py (generators, drivers, canonicalisation)",
    "modelled, not verified: sqlite3, simplejson, urllib.parse.unquote, re, str methods, tempfile, pyfaidx, OS",
]


def write_evidence(pid, tier, seed, mod, pr, cov, notes, nviol, wall, _n):
    ev = {
        "property_id": pid, "tier": tier, "seed": seed, "level": "proof",
        "coverage": dict(cov, **{
            "obligations": max(1, pr["obligations"]), "discharged": pr["discharged"],
            "theorems": pr["theorems"],
            "checker_cmd": "make -C /verif/coq theories/Properties/%s.vo (coq_makefile, full .vo) ; "
                           "coqc Properties/%s.v for Print Assumptions ; coqc cases_*.v (vm_compute) for the "
                           "correspondence" % (pid, pid),
            "trusted_base": TRUSTED + list(getattr(mod, "TRUSTED_EXTRA", [])),
            "print_assumptions": pr["assumptions"] or ["Closed under the global context (every theorem)"],
            "proof_failure": pr["failing"], "notes": notes, "coqchk": pr.get("coqchk", "not run in the quick tier"),
        }),
        "assumptions": list(getattr(mod, "ASSUMPTIONS", [])),
        "wall_s": round(wall, 2), "violations": nviol,
    }
    os.makedirs(os.path.join(VERIF, "evidence"), exist_ok=True)
    with open(os.path.join(VERIF, "evidence", pid + ".json"), "w") as fh:
        json.dump(ev, fh, indent=1, sort_keys=True)


if __name__ == "__main__":
    try:
        main()
    except SystemExit:
        raise
    except BaseException:
        traceback.print_exc()
        sys.exit(2)
