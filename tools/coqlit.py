"""Gallina literal printers used by the correspondence harness."""


def z(n):
    n = int(n)
    return "(%d)" % n if n < 0 else "%d" % n


def b(v):
    return "true" if v else "false"


def s(text):
    """a Python str as a Coq string literal decoded by Base.Prelude.U (see there)"""
    if text == "":
        return "(@nil N)"
    out = []
    for ch in text:
        o = ord(ch)
        if 0x20 <= o <= 0x7D and o != 0x22:
            out.append(ch)
        else:
            out.append("~%06X" % o)
    return '(U "%s"%%bs)' % "".join(out)


def lst(items, ty=None):
    items = list(items)
    if not items:
        return "(@nil %s)" % ty if ty else "[]"
    return "[" + "; ".join(items) + "]"


def opt(v, f, ty=None):
    if v is None:
        return "(@None %s)" % ty if ty else "None"
    return "(Some %s)" % f(v)


def pair(a, c):
    return "(%s, %s)" % (a, c)


def zs(ns):
    return lst([z(n) for n in ns], "Z")


def ss(strs):
    return lst([s(x) for x in strs], "str")


ERR = {
    "NotFound": "ENotFound", "Duplicate": "EDuplicate", "Value": "EValue", "Integrity": "EIntegrity",
    "Type": "EType", "Index": "EIndex", "Key": "EKey", "Attr": "EAttr", "Assert": "EAssert", "Other": "EOther",
}


def err_class(ex):
    """map a Python exception to the small enum compared with the model"""
    import sqlite3
    name = type(ex).__name__
    if name == "FeatureNotFoundError":
        return "NotFound"
    if name == "DuplicateIDError":
        return "Duplicate"
    if isinstance(ex, sqlite3.IntegrityError):
        return "Integrity"
    if isinstance(ex, ValueError):
        return "Value"
    if isinstance(ex, TypeError):
        return "Type"
    if isinstance(ex, IndexError):
        return "Index"
    if isinstance(ex, KeyError):
        return "Key"
    if isinstance(ex, AttributeError):
        return "Attr"
    if isinstance(ex, AssertionError):
        return "Assert"
    return "Other"


def res(r, f):
    """r = ("ok", value) | ("err", class)"""
    if r[0] == "ok":
        return "(Ok %s)" % f(r[1])
    return "(Err %s)" % ERR[r[1]]
