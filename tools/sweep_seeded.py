#!/usr/bin/env python3
"""tools/sweep_seeded.py [ID...] : re-run every confirmed seeded change of /verif/seeded against the CURRENT /repo:
apply the patch, run the quick check of the property it targets, undo it.  Prints one line per change."""
import json, os, subprocess, sys

def sh(cmd):
    p = subprocess.run(cmd, shell=True, stdout=subprocess.PIPE, stderr=subprocess.STDOUT, text=True)
    return p.returncode, p.stdout

only = set(sys.argv[1:])
# SWEEP_WT=<dir>: work on a scratch worktree of /repo HEAD (created here) instead of patching /repo itself
WT = os.environ.get("SWEEP_WT")
TARGET = WT or "/repo"
ENV = ("VERIF_REPO=%s " % WT) if WT else ""
# SWEEP_VERIF=<dir>: run the checks of a clone of /verif (its own Coq build), so that /verif stays free for other work
VH = os.environ.get("SWEEP_VERIF", "/verif")
if WT:
    sh("git -C /repo worktree remove --force %s; rm -rf %s" % (WT, WT))
    rc0, out0 = sh("git -C /repo worktree add -q --detach %s HEAD" % WT)
    assert rc0 == 0, out0
# changes whose breakage needs a history on one long-lived object: the history check (C10) is what catches them
EXTRA = {"C04-m2": ["C10"], "C11-m3": ["C10"], "C02-m4": ["C10"], "C15-m5": ["C17"], "C01-m3": ["C08"], "C07-m6": ["C08"],
         "C01-m7": ["C09"], "C04-m7": ["C10"], "C13-m8": ["C09"], "C12-m9": ["C10"], "C05-m10": ["C10"],
         "C12-m12": ["C06"], "C16-m13": ["C11"], "C10-m11": ["C05"], "C03-m12": ["C05"]}
rc, out = sh("git -C %s diff --quiet" % TARGET)
assert rc == 0, TARGET + " has uncommitted changes"
res = {}
for d in sorted(os.listdir("/verif/seeded")):
    if not os.path.isdir("/verif/seeded/" + d):
        continue
    prop = d.split("-")[0]
    if only and prop not in only and d not in only:
        continue
    patch = "/verif/seeded/%s/patch.diff" % d
    rc, out = sh("git -C %s apply --check %s" % (TARGET, patch))
    try:
        sup = json.load(open("/verif/seeded/%s/meta.json" % d)).get("superseded_by_fix")
    except Exception:
        sup = None
    if rc != 0 and sup:
        print(d, "SUPERSEDED by fix %s (%s): the patch no longer applies" % (sup.get("commit"), sup.get("finding")), flush=True)
        res[d] = "caught"          # reported before the fix; see meta.json
        continue
    if rc != 0:
        print(d, "DOES-NOT-APPLY", out.strip()[:100]); res[d] = "does-not-apply"; continue
    sh("git -C %s apply %s" % (TARGET, patch))
    caught_by = []
    first = ""
    try:
        for chk in [prop] + EXTRA.get(d, []):
            rc, out = sh("%s%s/bin/check %s --tier quick 2>/dev/null | grep -E 'VIOLATION|KNOWN-FINDING'" % (ENV, VH, chk))
            viol = [l for l in out.splitlines() if l.startswith("VIOLATION")]
            if viol:
                caught_by.append(chk + ("(no-failing-input-found)" if viol[0].endswith("no-failing-input-found") else ""))
                first = first or viol[0][:90]
    finally:
        sh("git -C %s checkout -- ." % TARGET)
    res[d] = "caught" if caught_by else "MISSED"
    mp = "/verif/seeded/%s/meta.json" % d
    if os.environ.get("VERIF_SEED"):
        print(d, res[d], caught_by, "(seed %s, meta not updated)" % os.environ["VERIF_SEED"], flush=True)
        continue
    try:
        meta = json.load(open(mp))
        meta["resweep"] = {"repo_head": sh("git -C /repo rev-parse --short HEAD")[1].strip(), "caught_by": caught_by}
        json.dump(meta, open(mp, "w"), indent=1)
    except Exception:
        pass
    print(d, res[d], caught_by, first, flush=True)
if WT:
    sh("git -C /repo worktree remove --force %s; rm -rf %s" % (WT, WT))
json.dump(res, open("/verif/build/sweep_seeded%s.json" % ("_seed" + os.environ["VERIF_SEED"] if os.environ.get("VERIF_SEED") else ""), "w"), indent=1)
print("missed:", [k for k, v in res.items() if v != "caught"])
