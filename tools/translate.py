#!/usr/bin/env python3
"""Fail-closed translator: Python integer code of gffutils -> Gallina.

Regenerates, from the *current* /repo working tree,
  Gen/GenBins.v      gffutils/bins.py : module constants + bins()
  Gen/GenCriteria.v  gffutils/merge_criteria.py : the ten criteria
  Gen/GenConst.v     parser._to_quote, constants.dialect, _keys/_gffkeys,
                     Feature.__len__
Anything the translator does not understand raises Untranslatable (never a
guess).  The emitted text only uses definitions from Gen/GenLib.v,
Model/Bins.v (the result type) and Base/Prelude.v.
"""
import ast
import os
import sys

REPO = os.environ.get("VERIF_REPO", "/repo")


class Untranslatable(Exception):
    pass


def fail(node, why):
    raise Untranslatable("%s at line %s: %s" % (why, getattr(node, "lineno", "?"), ast.dump(node)[:200]))


# ---------------------------------------------------------------- literals
def zlit(n):
    return "(%d)" % n if n < 0 else "%d" % n


def strlit(s):
    """string literal understood by Base.Prelude.U"""
    if s == "":
        return "(@nil N)"
    out = []
    for ch in s:
        o = ord(ch)
        out.append(ch if (0x20 <= o <= 0x7D and o != 0x22) else "~%06X" % o)
    return '(U "%s"%%bs)' % "".join(out)


# ------------------------------------------------- constant evaluation (safe)
def const_eval(node, env):
    """Evaluate a module-level constant expression over ints/strs/lists/dicts."""
    if isinstance(node, ast.Constant):
        if isinstance(node.value, (int, str, bool)):
            return node.value
        fail(node, "constant type")
    if isinstance(node, ast.Name):
        if node.id in env:
            return env[node.id]
        fail(node, "unknown name in constant")
    if isinstance(node, ast.BinOp):
        l, r = const_eval(node.left, env), const_eval(node.right, env)
        ops = {ast.Add: lambda a, b: a + b, ast.Sub: lambda a, b: a - b,
               ast.Mult: lambda a, b: a * b, ast.Pow: lambda a, b: a ** b}
        for k, f in ops.items():
            if isinstance(node.op, k):
                return f(l, r)
        fail(node, "constant operator")
    if isinstance(node, ast.List):
        return [const_eval(e, env) for e in node.elts]
    if isinstance(node, ast.Tuple):
        return tuple(const_eval(e, env) for e in node.elts)
    if isinstance(node, ast.Dict):
        return {const_eval(k, env): const_eval(v, env) for k, v in zip(node.keys, node.values)}
    if isinstance(node, ast.Call):
        # chr(i), range(n), "".join([...])
        if isinstance(node.func, ast.Name) and node.func.id == "chr" and len(node.args) == 1:
            return chr(const_eval(node.args[0], env))
        if isinstance(node.func, ast.Name) and node.func.id == "range":
            return list(range(*[const_eval(a, env) for a in node.args]))
        if (isinstance(node.func, ast.Attribute) and node.func.attr == "join"
                and len(node.args) == 1):
            return const_eval(node.func.value, env).join(const_eval(node.args[0], env))
        fail(node, "constant call")
    if isinstance(node, ast.ListComp) and len(node.generators) == 1:
        g = node.generators[0]
        if g.ifs or not isinstance(g.target, ast.Name):
            fail(node, "comprehension shape")
        out = []
        for v in const_eval(g.iter, env):
            e2 = dict(env)
            e2[g.target.id] = v
            out.append(const_eval(node.elt, e2))
        return out
    fail(node, "constant expression")


def module_constants(tree, names):
    env = {}
    for st in tree.body:
        if isinstance(st, ast.Assign) and len(st.targets) == 1 and isinstance(st.targets[0], ast.Name):
            n = st.targets[0].id
            if n in names:
                env[n] = const_eval(st.value, env)
        elif isinstance(st, ast.AugAssign) and isinstance(st.target, ast.Name) and st.target.id in names:
            if not isinstance(st.op, ast.Add):
                fail(st, "augassign op")
            env[st.target.id] = env[st.target.id] + const_eval(st.value, env)
    missing = [n for n in names if n not in env]
    if missing:
        raise Untranslatable("module constants missing: %s" % missing)
    return env


def gallina_const(v):
    if isinstance(v, bool):
        return "true" if v else "false"
    if isinstance(v, int):
        return zlit(v)
    if isinstance(v, str):
        return strlit(v)
    if isinstance(v, (list, tuple)):
        return "[" + "; ".join(gallina_const(x) for x in v) + "]"
    raise Untranslatable("constant %r" % (v,))


# ------------------------------------------------------ expression translation
class Ctx:
    def __init__(self, types, consts, in_loop=False, feat_vars=()):
        self.types = dict(types)      # var -> 'int' | 'bool' | 'str' | 'set'
        self.consts = consts          # module constants (python values)
        self.in_loop = in_loop
        self.feat_vars = set(feat_vars)
        self.wrappers = []            # pending "match ... with" wrappers (KeyError)


INT_FIELDS = {"start": "m_start", "end": "m_end", "stop": "m_end"}
STR_FIELDS = {"seqid": "m_seqid", "strand": "m_strand", "featuretype": "m_ftype"}


def tr_expr(e, cx):
    """returns (gallina, type)"""
    if isinstance(e, ast.Constant):
        if isinstance(e.value, bool):
            return ("true" if e.value else "false"), "bool"
        if isinstance(e.value, int):
            return zlit(e.value), "int"
        if isinstance(e.value, str):
            return strlit(e.value), "str"
        fail(e, "constant")
    if isinstance(e, ast.Name):
        if e.id in cx.types:
            return e.id, cx.types[e.id]
        if e.id in cx.consts:
            v = cx.consts[e.id]
            if isinstance(v, int):
                return e.id, "int"
            if isinstance(v, list):
                return e.id, "intlist"
        fail(e, "unknown name")
    if isinstance(e, ast.Attribute) and isinstance(e.value, ast.Name) and e.value.id in cx.feat_vars:
        if e.attr in INT_FIELDS:
            return "(%s %s)" % (INT_FIELDS[e.attr], e.value.id), "int"
        if e.attr in STR_FIELDS:
            return "(%s %s)" % (STR_FIELDS[e.attr], e.value.id), "str"
        fail(e, "unknown feature field")
    if isinstance(e, ast.BinOp):
        l, lt = tr_expr(e.left, cx)
        r, rt = tr_expr(e.right, cx)
        if lt != "int" or rt != "int":
            fail(e, "non-integer arithmetic")
        if isinstance(e.op, ast.Add):
            return "(%s + %s)" % (l, r), "int"
        if isinstance(e.op, ast.Sub):
            return "(%s - %s)" % (l, r), "int"
        if isinstance(e.op, ast.Mult):
            return "(%s * %s)" % (l, r), "int"
        if isinstance(e.op, ast.RShift):     # Python >> on ints is floor: Z.shiftr
            return "(Z.shiftr %s %s)" % (l, r), "int"
        if isinstance(e.op, ast.LShift):
            return "(Z.shiftl %s %s)" % (l, r), "int"
        if isinstance(e.op, ast.Pow):
            return "(%s ^ %s)" % (l, r), "int"
        if isinstance(e.op, (ast.FloorDiv, ast.Mod)):
            # Python's // and % on ints round towards minus infinity / take the divisor's sign, like Z.div / Z.modulo.
            # A divisor that is a constant power of two is rendered as the shift it equals (x // 2**k = x >> k for
            # every int x), so that `>> k`, `// 2**k` and `// 131072` are one and the same generated term.
            try:
                d = const_eval(e.right, {k: v for k, v in cx.consts.items() if isinstance(v, int)})
            except Untranslatable:
                d = None
            if isinstance(d, int) and not isinstance(d, bool) and d > 0 and d & (d - 1) == 0:
                k = d.bit_length() - 1
                if isinstance(e.op, ast.FloorDiv):
                    return "(Z.shiftr %s %s)" % (l, zlit(k)), "int"
                return "(Z.land %s %s)" % (l, zlit(d - 1)), "int"
            if isinstance(e.op, ast.FloorDiv):
                return "(%s / %s)" % (l, r), "int"
            return "(%s mod %s)" % (l, r), "int"
        fail(e, "operator")
    if isinstance(e, ast.UnaryOp):
        v, t = tr_expr(e.operand, cx)
        if isinstance(e.op, ast.Not) and t == "bool":
            return "(negb %s)" % v, "bool"
        if isinstance(e.op, ast.USub) and t == "int":
            return "(- %s)" % v, "int"
        fail(e, "unary")
    if isinstance(e, ast.BoolOp):
        parts = [tr_expr(v, cx) for v in e.values]
        if any(t != "bool" for _, t in parts):
            fail(e, "and/or over non-bool (truthiness not modelled)")
        op = " && " if isinstance(e.op, ast.And) else " || "
        return "(" + op.join(p for p, _ in parts) + ")", "bool"
    if isinstance(e, ast.Compare):
        # chained comparison a op b op c == (a op b) and (b op c); operands here
        # are pure so double evaluation is harmless
        operands = [e.left] + list(e.comparators)
        outs = []
        for (a, op, b) in zip(operands, e.ops, operands[1:]):
            l, lt = tr_expr(a, cx)
            r, rt = tr_expr(b, cx)
            if lt == "int" and rt == "int":
                sym = {ast.Lt: "<?", ast.LtE: "<=?", ast.Gt: ">?", ast.GtE: ">=?", ast.Eq: "=?"}
                for k, s in sym.items():
                    if isinstance(op, k):
                        outs.append("(%s %s %s)" % (l, s, r))
                        break
                else:
                    if isinstance(op, ast.NotEq):
                        outs.append("(negb (%s =? %s))" % (l, r))
                    else:
                        fail(e, "comparison operator")
            elif lt == "str" and rt == "str":
                if isinstance(op, ast.Eq):
                    outs.append("(str_eqb %s %s)" % (l, r))
                elif isinstance(op, ast.NotEq):
                    outs.append("(negb (str_eqb %s %s))" % (l, r))
                else:
                    fail(e, "string ordering")
            else:
                fail(e, "comparison of mixed types")
        return ("(" + " && ".join(outs) + ")") if len(outs) > 1 else outs[0], "bool"
    if isinstance(e, ast.Subscript):
        # CONST_DICT[key]  (KeyError -> RErr through a wrapper)
        if isinstance(e.value, ast.Name) and isinstance(cx.consts.get(e.value.id), dict):
            k, kt = tr_expr(e.slice, cx)
            if kt != "str":
                fail(e, "dict key type")
            tmp = "_v%d" % len(cx.wrappers)
            cx.wrappers.append((tmp, "dict_get %s %s" % (e.value.id, k)))
            return tmp, "int"
        fail(e, "subscript")
    if isinstance(e, ast.Call):
        # set([x])
        if isinstance(e.func, ast.Name) and e.func.id == "set" and len(e.args) == 1 \
                and isinstance(e.args[0], ast.List) and len(e.args[0].elts) == 1:
            v, t = tr_expr(e.args[0].elts[0], cx)
            if t != "int":
                fail(e, "set element")
            return "[(%s, %s)]" % (v, v), "set"
        fail(e, "call")
    fail(e, "expression")


def wrap(cx, body, errval):
    """apply pending dict-lookup wrappers around body"""
    for tmp, look in reversed(cx.wrappers):
        body = "match %s with Some %s => %s | None => %s end" % (look, tmp, body, errval)
    cx.wrappers = []
    return body


# ------------------------------------------------------- statement translation
def always_returns(stmts):
    for s in stmts:
        if isinstance(s, ast.Return):
            return True
        if isinstance(s, ast.If) and s.orelse and always_returns(s.body) and always_returns(s.orelse):
            return True
    return False


def assigned_vars(stmts):
    out = []
    for s in ast.walk(ast.Module(body=stmts, type_ignores=[])):
        if isinstance(s, ast.Assign):
            for t in s.targets:
                if isinstance(t, ast.Name) and t.id not in out:
                    out.append(t.id)
        elif isinstance(s, ast.AugAssign) and isinstance(s.target, ast.Name):
            if s.target.id not in out:
                out.append(s.target.id)
        elif isinstance(s, ast.Expr) and isinstance(s.value, ast.Call) \
                and isinstance(s.value.func, ast.Attribute) and s.value.func.attr == "update" \
                and isinstance(s.value.func.value, ast.Name):
            if s.value.func.value.id not in out:
                out.append(s.value.func.value.id)
    return out


def ret_value(expr, cx):
    v, t = tr_expr(expr, cx)
    if t == "int":
        r = "RInt %s" % v
    elif t == "set":
        r = "RSet %s" % v
    else:
        fail(expr, "return type")
    body = "(Return (%s))" % r if cx.in_loop else "(%s)" % r
    err = "(Return RErr)" if cx.in_loop else "RErr"
    return wrap(cx, body, err)


def tr_block(stmts, cx, k):
    """k: Gallina text for 'fall off the end of this block' (None = RErr)"""
    err = "(Return RErr)" if cx.in_loop else "RErr"
    if not stmts:
        return k if k is not None else err
    s, rest = stmts[0], stmts[1:]
    if isinstance(s, ast.Expr) and isinstance(s.value, ast.Constant) and isinstance(s.value.value, str):
        return tr_block(rest, cx, k)          # docstring
    if isinstance(s, ast.Return):
        if s.value is None:
            fail(s, "bare return")
        if isinstance(s.value, ast.IfExp):
            # return A if c else B   ==   if c: return A / else: return B   (the branches may differ in type)
            v = s.value
            new_if = ast.If(test=v.test, body=[ast.copy_location(ast.Return(value=v.body), s)],
                            orelse=[ast.copy_location(ast.Return(value=v.orelse), s)])
            return tr_block([ast.copy_location(new_if, s)] + rest, cx, k)
        return ret_value(s.value, cx)
    if isinstance(s, ast.If) and isinstance(s.test, ast.BoolOp) and len(s.test.values) >= 2 \
            and any(isinstance(n, ast.Subscript) for n in ast.walk(s.test)):
        # `or` / `and` evaluate lazily: an operand that can raise (a constant-dict lookup) must only be evaluated when
        # the operands before it did not decide.  Desugar into nested ifs, one operand at a time.
        first, others = s.test.values[0], s.test.values[1:]
        tail_test = others[0] if len(others) == 1 else ast.copy_location(ast.BoolOp(op=s.test.op, values=others), s.test)
        if isinstance(s.test.op, ast.Or):
            inner = ast.copy_location(ast.If(test=tail_test, body=s.body, orelse=s.orelse), s)
            outer = ast.copy_location(ast.If(test=first, body=s.body, orelse=[inner]), s)
        else:
            inner = ast.copy_location(ast.If(test=tail_test, body=s.body, orelse=s.orelse), s)
            outer = ast.copy_location(ast.If(test=first, body=[inner], orelse=s.orelse), s)
        return tr_block([outer] + rest, cx, k)
    if isinstance(s, ast.If):
        t, tt = tr_expr(s.test, cx)
        if tt != "bool":
            fail(s, "if on non-bool (truthiness not modelled)")
        cx_t = Ctx(cx.types, cx.consts, cx.in_loop, cx.feat_vars)
        cx_e = Ctx(cx.types, cx.consts, cx.in_loop, cx.feat_vars)
        pend = cx.wrappers
        cx.wrappers = []
        if always_returns(s.body):
            a = tr_block(s.body, cx_t, None)
        else:
            a = tr_block(list(s.body) + rest, cx_t, k)
        if s.orelse and always_returns(s.orelse):
            b = tr_block(s.orelse, cx_e, None)
        else:
            b = tr_block(list(s.orelse) + rest, cx_e, k)
        cx.wrappers = pend
        return wrap(cx, "(if %s then %s else %s)" % (t, a, b), err)
    if isinstance(s, ast.Assign) and len(s.targets) == 1 and isinstance(s.targets[0], ast.Name):
        v, t = tr_expr(s.value, cx)
        pend = cx.wrappers
        cx.wrappers = []
        cx.types[s.targets[0].id] = t
        body = "(let %s := %s in %s)" % (s.targets[0].id, v, tr_block(rest, cx, k))
        cx.wrappers = pend
        return wrap(cx, body, err)
    if isinstance(s, ast.AugAssign) and isinstance(s.target, ast.Name):
        new = ast.BinOp(left=ast.Name(id=s.target.id, ctx=ast.Load()), op=s.op, right=s.value)
        ast.copy_location(new, s)
        return tr_block([ast.copy_location(ast.Assign(targets=[s.target], value=new), s)] + rest, cx, k)
    if isinstance(s, ast.Expr) and isinstance(s.value, ast.Call):
        c = s.value
        # S.update(list(range(a, b)))  ->  S := (a, b - 1) :: S
        if (isinstance(c.func, ast.Attribute) and c.func.attr == "update"
                and isinstance(c.func.value, ast.Name) and cx.types.get(c.func.value.id) == "set"
                and len(c.args) == 1):
            a = c.args[0]
            if isinstance(a, ast.Call) and isinstance(a.func, ast.Name) and a.func.id == "list" and len(a.args) == 1:
                a = a.args[0]
            if isinstance(a, ast.Call) and isinstance(a.func, ast.Name) and a.func.id == "range" and len(a.args) == 2:
                lo, lt = tr_expr(a.args[0], cx)
                hi, ht = tr_expr(a.args[1], cx)
                if lt != "int" or ht != "int":
                    fail(s, "range bounds")
                name = c.func.value.id
                body = "(let %s := (%s, (%s - 1)) :: %s in %s)" % (name, lo, hi, name, tr_block(rest, cx, k))
                return wrap(cx, body, err)
        fail(s, "expression statement")
    if isinstance(s, ast.For):
        if cx.in_loop:
            fail(s, "nested loop")
        if s.orelse or not isinstance(s.target, ast.Name):
            fail(s, "for shape")
        it, itt = tr_expr(s.iter, cx)
        if itt != "intlist":
            fail(s, "for over non-constant list")
        vars_ = [v for v in assigned_vars(s.body) if v in cx.types]
        new_in_body = [v for v in assigned_vars(s.body) if v not in cx.types]
        if new_in_body:
            fail(s, "loop introduces variables %s" % new_in_body)
        tup = "(" + ", ".join(vars_) + ")"
        pat = "'" + tup
        cxb = Ctx(cx.types, cx.consts, True, cx.feat_vars)
        cxb.types[s.target.id] = "int"
        body = tr_block(list(s.body), cxb, "(Continue %s)" % tup)
        after = tr_block(rest, cx, k)
        return "(for_loop %s %s (fun %s %s => %s) (fun %s => %s))" % (it, tup, s.target.id, pat, body, pat, after)
    fail(s, "statement")


def find_func(tree, name):
    for st in tree.body:
        if isinstance(st, ast.FunctionDef) and st.name == name:
            return st
    raise Untranslatable("function %s not found" % name)


# ------------------------------------------------------------------ bins.py
HEADER = """(* GENERATED by tools/translate.py from %s — do not edit.  Regenerated on every
   check run; the proofs in Proofs/GenEquiv.v tie it to the hand-written model. *)
From GV Require Import Base.Prelude Gen.GenLib Model.Bins.
Open Scope Z_scope.
"""


def gen_bins(repo):
    path = os.path.join(repo, "gffutils", "bins.py")
    tree = ast.parse(open(path).read())
    names = ["NEXT_SHIFT", "FIRST_SHIFT", "OFFSETS", "COORD_OFFSETS", "MAX_CHROM_SIZE"]
    consts = module_constants(tree, names)
    out = [HEADER % "gffutils/bins.py"]
    for n in names:
        v = consts[n]
        if isinstance(v, dict):
            items = "; ".join("(%s, %s)" % (strlit(k), zlit(x)) for k, x in v.items())
            out.append("Definition %s : list (str * Z) := [%s]." % (n, items))
        elif isinstance(v, list):
            out.append("Definition %s : list Z := %s." % (n, gallina_const(v)))
        else:
            out.append("Definition %s : Z := %s." % (n, zlit(v)))
    f = find_func(tree, "bins")
    args = [a.arg for a in f.args.args]
    defaults = dict(zip(args[len(args) - len(f.args.defaults):], f.args.defaults))
    types = {}
    for a in args:
        d = defaults.get(a)
        if d is None:
            types[a] = "int"
        elif isinstance(d, ast.Constant) and isinstance(d.value, bool):
            types[a] = "bool"
        elif isinstance(d, ast.Constant) and isinstance(d.value, str):
            types[a] = "str"
        else:
            fail(f, "parameter default")
    if args != ["start", "stop", "fmt", "one"]:
        raise Untranslatable("bins() signature changed: %s" % args)
    cx = Ctx(types, consts)
    body = tr_block(list(f.body), cx, None)
    out.append("Definition gen_bins (start stop : Z) (fmt : str) (one : bool) : bres :=\n  %s." % body)
    dflt = {a: const_eval(d, {}) for a, d in defaults.items()}
    out.append("Definition gen_default_fmt : str := %s." % strlit(dflt["fmt"]))
    out.append("Definition gen_default_one : bool := %s." % gallina_const(dflt["one"]))
    return "\n".join(out) + "\n"


# --------------------------------------------------------- merge_criteria.py
def gen_criteria(repo):
    path = os.path.join(repo, "gffutils", "merge_criteria.py")
    tree = ast.parse(open(path).read())
    out = [HEADER % "gffutils/merge_criteria.py"]
    simple = ["seqid", "strand", "feature_type", "exact_coordinates_only", "overlap_end_inclusive",
              "overlap_start_inclusive", "overlap_any_inclusive"]
    closures = ["overlap_end_threshold", "overlap_start_threshold", "overlap_any_threshold"]

    def crit_body(fn, extra_types):
        args = [a.arg for a in fn.args.args]
        if len(args) != 3:
            fail(fn, "criterion arity")
        body = [s for s in fn.body if not (isinstance(s, ast.Expr) and isinstance(s.value, ast.Constant))]
        cx = Ctx(extra_types, {}, feat_vars=args[:2])
        v = bool_block(body, cx, fn)
        if cx.wrappers:
            fail(fn, "criterion result type")
        return args, v

    def bool_block(stmts, cx, fn):
        """straight-line boolean code: assignments, `if b: return ...` with or without else, a final return"""
        if not stmts:
            fail(fn, "criterion falls off the end")
        st, rest = stmts[0], stmts[1:]
        if isinstance(st, ast.Return) and st.value is not None:
            v, t = tr_expr(st.value, cx)
            if t != "bool":
                fail(st, "criterion result type")
            return v
        if isinstance(st, ast.Assign) and len(st.targets) == 1 and isinstance(st.targets[0], ast.Name):
            v, t = tr_expr(st.value, cx)
            cx.types[st.targets[0].id] = t
            return "(let %s := %s in %s)" % (st.targets[0].id, v, bool_block(rest, cx, fn))
        if isinstance(st, ast.If):
            c, ct = tr_expr(st.test, cx)
            if ct != "bool":
                fail(st, "if on non-bool (truthiness not modelled)")
            a = bool_block(list(st.body) + ([] if always_returns(st.body) else rest), Ctx(cx.types, cx.consts, False, cx.feat_vars), fn)
            b = bool_block(list(st.orelse) + ([] if st.orelse and always_returns(st.orelse) else rest),
                           Ctx(cx.types, cx.consts, False, cx.feat_vars), fn)
            return "(if %s then %s else %s)" % (c, a, b)
        fail(st, "criterion statement")

    for n in simple:
        fn = find_func(tree, n)
        args, v = crit_body(fn, {})
        out.append("Definition gen_%s (%s %s : mfeat) : bool :=\n  %s." % (n, args[0], args[1], v))
    for n in closures:
        fn = find_func(tree, n)
        pargs = [a.arg for a in fn.args.args]
        if len(pargs) != 1:
            fail(fn, "closure arity")
        inner = [s for s in fn.body if isinstance(s, ast.FunctionDef)]
        rets = [s for s in fn.body if isinstance(s, ast.Return)]
        if len(inner) != 1 or len(rets) != 1 or not isinstance(rets[0].value, ast.Name) \
                or rets[0].value.id != inner[0].name:
            fail(fn, "closure shape")
        args, v = crit_body(inner[0], {pargs[0]: "int"})
        out.append("Definition gen_%s (%s : Z) (%s %s : mfeat) : bool :=\n  %s." % (n, pargs[0], args[0], args[1], v))
    return "\n".join(out) + "\n"


# ------------------------------------------------------------------ constants
def gen_const(repo):
    out = [HEADER % "gffutils/parser.py, constants.py, feature.py"]
    ptree = ast.parse(open(os.path.join(repo, "gffutils", "parser.py")).read())
    tq = module_constants(ptree, ["_to_quote"])["_to_quote"]
    out.append("Definition gen_to_quote : str := %s." % strlit(tq))
    ctree = ast.parse(open(os.path.join(repo, "gffutils", "constants.py")).read())
    cs = module_constants(ctree, ["_keys", "_gffkeys", "_gffkeys_extra", "dialect",
                                  "always_return_list", "ignore_url_escape_characters"])
    for n in ["_keys", "_gffkeys", "_gffkeys_extra"]:
        out.append("Definition gen%s : list str := %s." % (n, gallina_const(cs[n])))
    d = cs["dialect"]
    expected = ["leading semicolon", "trailing semicolon", "quoted GFF2 values", "field separator",
                "keyval separator", "multival separator", "fmt", "repeated keys", "order"]
    if list(d.keys()) != expected:
        raise Untranslatable("constants.dialect keys changed: %s" % list(d.keys()))
    out.append("Definition gen_dialect_keys : list str := %s." % gallina_const(list(d.keys())))
    out.append("Definition gen_default_dialect : bool * bool * bool * str * str * str * str * bool * list str :=\n  (%s)."
               % ", ".join(gallina_const(d[k]) for k in expected))
    out.append("Definition gen_always_return_list : bool := %s." % gallina_const(cs["always_return_list"]))
    out.append("Definition gen_ignore_url_escape_characters : bool := %s."
               % gallina_const(cs["ignore_url_escape_characters"]))
    # Feature.__len__
    ftree = ast.parse(open(os.path.join(repo, "gffutils", "feature.py")).read())
    cls = [s for s in ftree.body if isinstance(s, ast.ClassDef) and s.name == "Feature"]
    if len(cls) != 1:
        raise Untranslatable("class Feature not found")
    ln = [s for s in cls[0].body if isinstance(s, ast.FunctionDef) and s.name == "__len__"]
    if len(ln) != 1 or len(ln[0].body) != 1 or not isinstance(ln[0].body[0], ast.Return):
        raise Untranslatable("Feature.__len__ shape")
    cx = Ctx({}, {}, feat_vars=["self"])
    v, t = tr_expr(ln[0].body[0].value, cx)
    if t != "int":
        raise Untranslatable("Feature.__len__ type")
    out.append("Definition gen_feature_len (self : mfeat) : Z :=\n  %s." % v)
    return "\n".join(out) + "\n"


TARGETS = {"GenBins.v": gen_bins, "GenCriteria.v": gen_criteria, "GenConst.v": gen_const}


def regenerate(outdir, repo=REPO):
    """Rewrite Gen/*.v when their text changed.  Returns {file: status} with
    status in 'same' | 'changed' | 'error: ...'."""
    status = {}
    for name, fn in TARGETS.items():
        p = os.path.join(outdir, name)
        try:
            text = fn(repo)
        except (Untranslatable, SyntaxError, OSError) as ex:
            status[name] = "error: %s" % ex
            continue
        old = open(p).read() if os.path.exists(p) else None
        if old != text:
            with open(p, "w") as fh:
                fh.write(text)
            status[name] = "changed"
        else:
            status[name] = "same"
    return status


if __name__ == "__main__":
    out = sys.argv[1] if len(sys.argv) > 1 else os.path.join(os.path.dirname(__file__), "..", "coq", "theories", "Gen")
    st = regenerate(out)
    for k, v in st.items():
        print(k, v)
    sys.exit(1 if any(v.startswith("error") for v in st.values()) else 0)
