#!/bin/sh
# tools/try_mutant.sh <patch.diff> <ID> [<ID>...] : apply a seeded change to /repo, run the quick checks, undo it.
patch="$1"; shift
git -C /repo diff --quiet || { echo "/repo has uncommitted changes"; exit 2; }
git -C /repo apply "$patch" || { echo "patch does not apply"; exit 2; }
for id in "$@"; do
  echo "== $id with $(basename $(dirname $patch))"
  /verif/bin/check "$id" --tier quick 2>/dev/null | grep -E "VIOLATION|KNOWN-FINDING" || echo "   (no violation reported)"
done
git -C /repo checkout -- .
git -C /repo status --short | grep -v '^??'
