#!/usr/bin/env python3
"""validate MANIFEST.json and evidence/*.json against the schemas (run with python3-vt)."""
import json, glob, sys, jsonschema
ok = True
def v(p, s):
    global ok
    try:
        jsonschema.validate(json.load(open(p)), json.load(open(s)))
    except Exception as ex:
        ok = False
        print("INVALID", p, str(ex)[:400])
v('/verif/MANIFEST.json', '/root/.vp/MANIFEST.schema.json')
for e in sorted(glob.glob('/verif/evidence/*.json')):
    v(e, '/root/.vp/EVIDENCE.schema.json')
print("all valid" if ok else "FAILED")
sys.exit(0 if ok else 1)
