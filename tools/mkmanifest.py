#!/usr/bin/env python3
"""Writes /verif/MANIFEST.json from the table below (keeps it schema-valid)."""
import json
import os

VERIF = os.path.dirname(os.path.dirname(os.path.abspath(__file__)))
ALL = ["C%02d" % i for i in range(1, 21)]

CLAIMED = {
    "C12": dict(
        text="Coq theorems (Properties/C12.v, 11 statements, closed under the global context) about the "
             "definition of bins() that tools/translate.py regenerates from gffutils/bins.py on every run: "
             "one=True is the finest real bin containing the interval plus the following base; one=False "
             "contains every overlapping bin and only bins meeting interval+1; out-of-range -> bin 1 with the "
             "right result type; overlap soundness for every in-range query; Feature.bin; the stored bin = bins(start, end) as an "
             "invariant of every import step of both importers. A semantic edit of "
             "bins.py breaks Proofs/GenEquiv.v; the exhaustive boundary grid then yields the concrete pair. The grid also runs "
             "through Features the library makes itself (interfeatures gap, merge union, splice sites): their .bin against "
             "bins(start, end) of the coordinates they come out with (this found F24 and F25).",
        note="Trusted: Coq kernel + vm_compute; translator (Python ast -> Gallina, fail-closed; Python >> = "
             "Z.shiftr); the correspondence harness (grid generator, set canonicalisation as sorted runs). "
             "Feature.calc_bin's None handling and _bin_from_dict are hand-modelled and tied by the "
             "correspondence only. Print Assumptions: closed under the global context.",
        technique="Coq proof over translator-generated model + exhaustive boundary-grid correspondence",
        design="4 (C12)"),
    "C06": dict(
        text="Coq theorems (Properties/C06.v) that the model of FeatureDB.region (three-disjunct clause, argument "
             "swap, Python truthiness of bounds, bin clause only for completely_within below 2^29 and < 900 bins) and "
             "of make_query's featuretype/limit/strand clauses select exactly filter(overlaps|within) of the stored "
             "rows, for all databases with consistent bins and all 1 <= start <= end incl. >= 2^29 (uses the C12 "
             "overlap-soundness theorem to show the bin clause removes nothing); one-sided and seqid-omitted forms; "
             "Feature form = tuple form. The model is tied to the code by running ~6k queries per quick run on "
             "databases built by the real importer (three construction routes) whose stored tables are handed to Coq; all queries of a "
             "case are asked for first and read in lock-step, and a feature arriving later on an unseen seqid must be found.",
        note="Trusted: Coq kernel + vm_compute; the hand-written Model/Query.v is tied to interface.region / "
             "helpers.make_query only by the correspondence (differential, boundary-pool generators); sqlite semantics "
             "(NULL comparisons, affinity) are modelled. Domain: start<=end rows with both or neither coordinate, "
             "non-empty featuretype collections, region() with at least one of seqid/start/end. The 'seqid:start-end' string "
             "forms of region() and limit= are proved equal to the tuple forms (seqid without ':', non-negative bounds).",
        technique="Coq proof (model = declarative filter) + differential correspondence on real databases",
        design="4 (C06)"),
    "C01": dict(
        text="Coq theorems (Properties/C01.v, 6 statements, closed under the global context) about the model of create_db as "
             "C01 sees it (Model/File.v: peek window + vote or supplied dialect, second pass parsing every line with that "
             "dialect, rows handed back in input order carrying the database dialect and the keep_order / "
             "sort_attribute_values switches): for every file written in one of the 36 styles, every checklines value and "
             "every setting, each line is stored exactly once, in order, with its eight columns, coordinates, attribute keys "
             "and decoded values and extra columns (C01_once_in_order); with keep_order the printed features are the input "
             "lines byte for byte (C01_print_identity); re-importing the printed features gives the same content "
             "(C01_reimport); the second-pass parser path (supplied dialect) agrees with the inference path on every fitting "
             "dialect (C01_with_dialect_agrees) and printing with the file-level dialect - whose key order is the first-seen "
             "union over the window - reproduces each line (C01_print_with_file_dialect). These compose the C07 and C09 "
             "theorems. Tied to create.py/interface.py/feature.py/parser.py/iterators.py by ~360 whole files per quick run "
             "through the real create_db (:memory: and file), all_features, str(), close + reopen and re-import, compared "
             "inside Coq with the model and with the input lines themselves.",
        note="Trusted: Coq kernel + vm_compute; Model/File.v, Model/Parser.v, Model/Dialect.v hand-written, tied by the "
             "correspondence; simplejson storage of attributes/extra/dialect is absent from Model/File.v (it is modelled "
             "separately, Model/Json.v, theorems under C17/C09; here it is checked by the reopen observations); ids, merge "
             "strategies and the database itself are likewise absent: C01's theorems are about the per-line supplied-dialect "
             "parse/print of a whole file under `fits`. Domain (boolean, evaluated in Coq on every generated file, inhabited in all 36 styles with a "
             "window shorter than the file: Examples/C01_inhabited.v): wf_feature per line, and `fits`: the voted dialect has "
             "the style's format/separators/quoting/trailing semicolon, its repeated-keys flag matches on lines that repeat a "
             "key, and each line's keys are in the order the dialect prints them (documented single-order limitation of "
             "keep_order; files violating only this are counted out_of_domain). Ids are autoincremented and GTF inference is "
             "off in the correspondence (C04/C05/C03 own those); byte identity is claimed for sort_attribute_values=False.",
        technique="Coq proof (composition of the parse, print and vote theorems over whole files) + differential correspondence on whole files incl. reopen and re-import",
        design="4 (C01)"),
    "C07": dict(
        text="Coq theorems (Properties/C07.v, closed under the global context), for ALL 36 styles (key=value / key \"value\" / key "
             "value x ';' '; ' ' ; ' x trailing semicolon x comma lists or repeated keys), any number of attributes and values and "
             "every unicode value the style admits: the inference path of the parser applied to the writer's rendering of the "
             "attribute column returns exactly the attributes (percent-decoded, in order) and the style's canonical dialect "
             "(C07_parse_attrs); printing with that dialect and keep_order=True gives the column back (C07_print_attrs: stable sort "
             "by first-seen order is the identity, quoting, GTF empty values, single-part separator); feature_from_line inverts "
             "render_line on whole lines incl. '.' coordinates, empty attribute column and extra columns (C07_parse_line) and "
             "str(feature) is the line byte for byte (C07_print_identity). The percent-quoting table is regenerated from parser.py "
             "on every run. Tied to parser.py/feature.py by 4k generated lines per quick run over all styles with an adversarial "
             "alphabet: the harness's own renderer, the Gallina writer, the model parser/printer and the implementation must all "
             "agree. C07_nonstrict: the line written with runs of blanks instead of tabs and surrounded by arbitrary white space "
             "(every str.splitlines boundary included) parses with strict=False to the same Feature (models of splitlines, "
             "strip, split(None, 8)).",
        note="Trusted: Coq kernel + vm_compute; Model/Parser.v (hand model of _split_keyvals inference path, _reconstruct, "
             "feature_from_line, Feature.__str__) and Base/Utf8.v, Base/WordTable.v (CPython's \\w table) are tied to the code by the "
             "correspondence; _to_quote is translator-generated. Domain (boolean wf_feature, inhabited in all 36 styles, "
             "Examples/C07_inhabited.v): ASCII-word keys, unique; values non-empty without white space at the ends; no ; , \" tab "
             "CR LF in quoted-GTF values; bare values free of reserved characters; a joined unquoted value must not look quoted; "
             "first key=value attribute not a flag; canonical decimal coordinates; for strict=False additionally no blanks inside "
             "columns 1-8, no extra columns, no line-break characters in the attribute column.",
        technique="Coq proof (parse o render = id and print o parse = id for all styles) + differential correspondence over all styles",
        design="4 (C07)"),
    "C08": dict(
        text="Coq theorems (Properties/C08.v, closed under the global context): unquote(quote s) = s for every string over "
             "all code points with the percent-encoding table regenerated from parser.py on every run; encoded text is free of "
             "tab/newline/CR/;/=/,/&; split_with D (reconstruct m D) = Ok m for ALL mappings of the property (word-like unique "
             "keys, non-empty lists of non-empty unicode strings) and all 24 GFF3-style dialects, and for all 12 standard GTF "
             "dialects on values free of ; \" , and control characters (C08_roundtrip_gtf); the printed Feature is one line with exactly "
             "8+|extra| tabs (C08_single_line), and the WHOLE line parses back to the Feature it came from - columns, '.' or integer "
             "coordinates of any size and sign, attributes, extra columns - for every GFF3-style dialect with keep_order and "
             "sort_attribute_values off (C08_line_roundtrip). 'Parsing never raises' is NOT carried by a theorem (the model's primitives are "
             "total, so C08_total_with holds by construction): for both parser paths it is decided by the correspondence (6k mappings x 48 dialects, a third of them printed "
             "and re-read with keep_order on and dialect orders that list only some of the keys; every string up to "
             "length 6 over the structural alphabet screened through both parser paths).",
        note="Trusted: Coq kernel + vm_compute; Model/Parser.v (hand model of _split_keyvals/_reconstruct/Feature.__str__) and "
             "Base/Utf8.v (model of urllib.parse.unquote + UTF-8 'replace') are tied to the code by the correspondence only; "
             "_to_quote is translator-generated. Totality (both paths) is decided by the correspondence only. Known finding "
             "F16 (non-standard GTF dialects) is recorded with a Coq refutation witness (Examples/C08_inhabited.v).",
        technique="Coq proof (codec round-trip theorems over generated quoting table) + differential correspondence incl. exhaustive short strings",
        design="4 (C08)"),
    "C09": dict(
        text="Coq theorems (Properties/C09.v, 13 statements, closed under the global context): for every well-formed line of "
             "every one of the 36 styles the dialect inferred by the parser's inference path is the style's canonical dialect "
             "(format, key/value separator, quoting, trailing semicolon; field separator when >= 2 parts; repeated-keys flag "
             "when a key repeats; keys in first-seen order) - a corollary of C07_parse_attrs; the vote of _choose_dialect, for "
             "any value type: the chosen value has maximal total weight (weight = attribute count), every value first seen "
             "earlier has strictly less, every value seen later at most as much - i.e. weighted majority, ties to the value "
             "seen first, zero-weight lines still count as seen (C09_vote, by induction over the tally = insertion-ordered dict "
             "and the stable descending sort); consistent windows recover their dialect (C09_file_consistent, composing the "
             "parser theorem with the vote); key order = first-seen union, each key once; empty input -> default dialect; a "
             "supplied dialect is returned verbatim; the window is the first checklines+1 features; GFF3 importer iff force_gff "
             "or fmt = gff3, GTF importer iff fmt = gtf; the dialect dictionary written to the meta table as JSON text decodes "
             "to the same dialect (C09_dialect_persists, Model/Json.v). Tied to helpers.py/iterators.py/create.py by ~770 files per quick run "
             "(consistent files in all styles, two-valued mixtures with ties in both orders and zero-weight lines, routing "
             "files, supplied dialects), comparing infer_dialect per line, DataIterator.dialect (path and Feature-list input), "
             "the dialect on yielded features, db.dialect, the stored JSON text, the reopened dialect and which importer ran, inside Coq.",
        note="Trusted: Coq kernel + vm_compute; Model/Dialect.v (hand model of _choose_dialect, the peek window and the "
             "routing in create_db) and Model/Parser.v are tied to the code by the correspondence. The number of inspected "
             "lines (checklines vs checklines+1) is not fixed by the property: cases whose outcome depends on it are "
             "out of domain. JSON persistence of the dialect (meta table) is C09_dialect_persists over Model/Json.v, tied by "
             "comparing the stored text and the reopened dialect. FeatureDB.update's routing by the stored dialect is exercised under C10.",
        technique="Coq proof (vote = first maximal total by induction; line dialect from the parse theorem; composition for consistent files) + differential correspondence",
        design="4 (C09)"),
    "C02": dict(
        text="Coq theorems (Properties/C02.v, 13 statements, closed under the global context) about the model of the GFF3 "
             "importer and of children()/parents(): for every input with unique tab/newline-free ids the import succeeds and "
             "stores each line once in order; level-1 relation rows are exactly the Parent links (dangling parents give a row, "
             "never a feature), level-2 rows exactly the composition of two level-1 links from a stored feature, nothing deeper; "
             "the table is invariant under every permutation of the lines; children/parents at level 1, 2 or None select exactly "
             "the related stored rows, are mutually inverse, return each row once and commute with the featuretype filter; the "
             "relations step is exact on EVERY stored state (C02_relations_step_exact: what update() adds at level 2 are exactly "
             "the compositions of two level-1 rows - true since the repair of F22, which the two-batch correspondence found), and over "
             "EVERY history create_db, update, update, ... under any of the five strategies the level-2 rows are exactly those "
             "compositions (C02_history_closed: nothing deeper, nothing missing, also for grandparents arriving later). The "
             "model (Model/Import.v incl. the temp-file text round trip of ids, Model/Query.v) is tied to create.py/interface.py "
             "by importing ~900 generated graphs per quick run (all line orders for small graphs in the thorough tier) and "
             "comparing the whole relations table and ~50 children/parents queries per graph inside Coq, against both the model "
             "and the declarative Parent graph; 30% of the graphs go through create_db + update() from a lazy source that "
             "itself queries the database; some files open with a dozen one-key-per-value lines; iter_by_parent_childs units are "
             "compared with children() for every ordering asked.",
        note="Trusted: Coq kernel + vm_compute; Model/Import.v and Model/Query.v are hand-written and tied to the code by the "
             "correspondence only; sqlite semantics (PRIMARY KEY, INSERT OR IGNORE, DISTINCT) modelled. Domain: one ID value per "
             "line, ids unique, non-empty, without tab/CR/LF (ids with a TAB make _update_relations raise: out of domain, see "
             "DESIGN F18). order_by arguments of children/parents are covered by C11's model, not here.",
        technique="Coq proof (relation table = Parent graph and its composition; query inverses) + differential correspondence on generated DAGs",
        design="4 (C02)"),
    "C04": dict(
        text="Coq theorems (Properties/C04.v, 16 statements, closed under the global context) about the model of "
             "_id_handler, the per-base counters and the importer: one lemma per id_spec form (first present attribute; an "
             "absent/empty attribute defers to the next key; several values -> ValueError, never truncation; ':field:' forms; "
             "callables returning None/''/a string/'autoincrement:X' for ANY callable; dict entry or <featuretype>_<n>); the i-th "
             "request for base k gets k_<previous+count>; autoid is injective (via a proved str(int)/int(str) round trip), so "
             "generated keys never coincide; keys are unique after EVERY import (all inputs, strategies, specs, from any "
             "database with unique keys); db[key] returns exactly the row stored under key and reports absent keys. Tied to "
             "create.py/interface.py by 1.5k imports per quick run over 22 id_spec forms x features having/lacking/multiply "
             "defining id attributes, with the stored tables and every db[key] (by string and by Feature, present and absent) "
             "compared inside Coq.",
        note="Trusted: Coq kernel + vm_compute; Model/Import.v hand-written, tied by the correspondence; user callables are a "
             "Section variable in the theorems and six concrete functions in the correspondence. ':start:'/':end:' id_specs "
             "(integer keys) are outside the modelled domain. A generated key colliding with an explicit id (F9) is classified "
             "as a known-finding class, not excused silently.",
        technique="Coq proof (id_handler case lemmas, counter arithmetic, key-uniqueness invariant by induction over imports) + differential correspondence",
        design="4 (C04)"),
    "C05": dict(
        text="Coq theorems (Properties/C05.v, 13 statements, closed under the global context) about the model of the "
             "IntegrityError dispatch and _do_merge, for an arbitrary database state, newcomer, id_spec and force_merge_fields: "
             "'error' aborts; 'warning' leaves features, relations and duplicates untouched; 'replace' puts the newcomer at the "
             "old row's position, keeps every other row, drops the old level-1 parent links and the level-2 rows derived from them "
             "(those ending at the replaced feature or running through it) and files the new ones; "
             "'create_unique' appends under a fresh <key>_n (= <key>_(counter+1) when that number is free) leaving all rows "
             "intact; 'merge' either appends under a fresh key recorded in duplicates, or updates exactly one candidate in "
             "place whose attribute values per key are exactly the duplicate-free union of the newcomer's and the candidates' "
             "values, with exempt columns the comma-joined sorted set; the newcomer's Parent links always go to the key it was "
             "stored under; and as an invariant of every step under every strategy from any stored state the level-1 relation "
             "rows are exactly the Parent values of the stored rows under their keys (C05_parent_links_exact: no Parent link lost "
             "or invented; level 2 is C02_history_closed). Tied to create.py by exhaustive arrival sequences of length <= 3 (thorough: 4) over a 6-feature "
             "alphabet x 5 strategies plus 1.5k random sequences x force_merge_fields subsets, a share of them split into a "
             "create_db batch and an update() batch, plus three-level chains whose members arrive again through update(), "
             "comparing features (values as sets for merge), relations, duplicates and counters inside Coq - and, independently "
             "of the model, requiring the relations table to be the closure of the stored rows' own Parent attributes (no link "
             "lost or invented).",
        note="Trusted: Coq kernel + vm_compute; Model/Import.v hand-written, tied by the correspondence. Python's list(set(v)) "
             "order is unspecified: the model keeps merged values sorted and the comparison is on sets. That at most one merge "
             "candidate agrees with a newcomer on the compared columns is a theorem (C05_merge_candidates_distinct: invariant of "
             "every import under 'merge' from empty tables), so Python's set order cannot matter there (in mixed-strategy histories "
             "two candidates can agree with a newcomer; which of them receives the union then follows list(set()) order: the "
             "model takes the last in table order; all agreeing candidates' values are unioned either way). GTF importer dispatch is the same "
             "code shape and is exercised by C03's correspondence. update() reuses the importer (C10).",
        technique="Coq proof (per-strategy state-transition theorems, attribute-union theorem) + exhaustive small-scope differential correspondence",
        design="4 (C05)"),
    "C03": dict(
        text="Coq theorems (Properties/C03.v, 16 statements, closed under the global context) about the model of the GTF "
             "importer: no line is ever its own parent or child (all lines, keys, configurations); an ordinary line gets exactly "
             "(transcript,line,1), (gene,line,2), (gene,transcript,1), an explicit transcript line exactly (gene,transcript,1), "
             "an explicit gene line nothing; the derived extent is exactly min start .. max end of the related subfeatures on "
             "their seqid/strand; both flags off = identity, each flag suppresses exactly its derived type; derived features are "
             "keyed by their transcript/gene id (retrievable by id); a line already stored under that id stays the single "
             "feature; _update_relations end to end (C03_inference_appends / _transcript_inferred / _gene_inferred / "
             "_nothing_else_derived): exactly the derived rows are appended, one per (transcript, gene) pair and gene, each "
             "retrievable by its id with the extent query's answer, ids stay unique, relations and counters untouched; and THE WHOLE "
             "IMPORT FROM THE INPUT LINES (C03_import_end_to_end, files of ordinary lines carrying both ids, inference on): every "
             "line stored once in order under its generated key, then for every transcript / gene id owning a subfeature line "
             "exactly one derived feature retrievable by that id, spanning exactly the declarative min start .. max end of its "
             "subfeature lines (GtfSpec.expected_extent), keys unique. The "
             "correspondence checks the property directly on the implementation's tables for ~260 generated annotations per "
             "quick run (shuffled, explicit lines, 4 flag combinations, custom keys/subfeature, text and Feature input, transcripts "
             "that occur under several genes, a second annotation imported through update() on the same in-memory database) besides "
             "comparing all four tables with the model inside Coq. A gene id under which no subfeature is filed is skipped (F26, "
             "found by this check and fixed in /repo); C03_gene_inferred is stated for genes that have an extent.",
        note="Trusted: Coq kernel + vm_compute; Model/Import.v (GTF part: relation triples, the DISTINCT/ORDER BY pair query, "
             "MIN/MAX with bare columns, temp-file round trip as identity on tab/newline-free fields, merge on collision) is "
             "hand-written and tied by the correspondence only. Domain: one seqid/strand per transcript "
             "and gene, integer coordinates, gene ids distinct from transcript ids (a transcript may occur under several genes; lines "
             "with the gene id only are in the domain, F21). C03_import_end_to_end covers files "
             "without explicit gene/transcript lines and without gene-id-only lines; those are covered by the per-state theorems (component theorems + correspondence).",
        technique="Coq proof (relation-triple, min/max extent, flag and collision theorems on the importer model) + differential correspondence with a direct spec check",
        design="4 (C03)"),
    "C10": dict(
        text="The property is a refinement claim; the reference model is the machine of Model/Machine.v (state = committed "
             "file content incl. the autoincrements table, the open object's live counters, the .bak content; operations "
             "update(features, strategy, checklines, failure position of the source, make_backup), delete(ids), add_relation, "
             "close+reopen), built on the importer model already proved for C02/C04/C05. Coq theorems (Properties/C10.v, 19 "
             "statements, closed under the global context, for every state / operation / history and any id_spec callable): "
             "delete removes exactly the named rows and exactly the relations mentioning them, keeps the order of the rest, "
             "the duplicates table and all counters; update with no features changes nothing; add_relation is refused - and then nothing at all has changed - unless both "
             "features are stored and the triple is new, otherwise exactly that triple is appended, the child's row rewritten in "
             "place only when a child_func is given, keys and everything else untouched; with make_backup the .bak is "
             "the complete pre-operation state for EVERY update - every strategy and every position at which the feature "
             "source may fail - and every delete, and is left alone otherwise; a failing source or a failing populate leaves "
             "the file untouched; reopen preserves the content and reloads the persisted counters; primary keys stay unique "
             "through every history (induction over the operation list: a generated key never equals a stored one); the "
             "first id-less feature of an update is stored under <featuretype>_(live counter+1); over every history the persisted "
             "counters only grow and never run ahead of the live ones (numbering continues across updates and reopenings). Tied to interface.py/"
             "create.py by every history up to length 3 (thorough: a seventh of length 4) over a 16-operation alphabet plus 500 random "
             "histories up to length 8 on GFF3 databases and every history up to length 2 (thorough 3) over a 10-operation alphabet "
             "plus 150 random ones on GTF databases, all on files, comparing after EVERY step the four tables (fresh connection), "
             "the in-memory counters, the .bak content, the outcome class and the long-lived object's own view (db[id] for a "
             "pool of ids, count_features_of_type per type, ids iterated) inside Coq.",
        note="Trusted: Coq kernel + vm_compute; Model/Machine.v and Model/Import.v hand-written, tied by the correspondence; "
             "sqlite transaction behaviour (an exception during update rolls back the creator's uncommitted connection once it "
             "is garbage collected) is modelled as 'disk unchanged' and checked by reading the file through a fresh "
             "connection after gc. GFF3- and GTF-dialect databases (the machine is parametrised by the stored dialect's importer); add_relation with an optional re-typing child_func; in-memory "
             "counters after a failed update follow the code (advanced, not persisted). Findings F20 (mid-import "
             "commit in _add_duplicate made failed 'merge' updates half-applied) and F27 (a refused add_relation left its "
             "transaction open and locked the file for later updates) were found by this check and fixed in /repo. The driver does "
             "not roll anything back for the implementation after a failed step.",
        technique="Coq proof of the machine laws (per-step characterisations, invariants by induction over histories) + exhaustive small-scope differential correspondence over operation histories (the refinement itself)",
        design="4 (C10)"),
    "C11": dict(
        text="Coq theorems (Properties/C11.v, 13 statements, closed under the global context) about the model of "
             "make_query's featuretype/strand/ORDER BY handling: the result contains exactly the matching stored rows, each once; "
             "it is strongly sorted (every earlier row <= every later row) under the lexicographic order of the requested "
             "columns - all 12 incl. 'length' and 'file_order' - with the single ASC/DESC suffix bound to the last column; the "
             "order is a total preorder (NULL < integers < text by code point), so results are determined up to ties; "
             "unfiltered unordered iteration is input order; count_features_of_type = number iterated; featuretypes()/seqids() "
             "= exactly the distinct values, each once. Tied to helpers.py/interface.py by ~2.3k queries per quick run (every "
             "column as string and as tuple x reverse, multi-column orders, filters, counts; iterators requested first and consumed "
             "later, several featuretypes()/seqids() listings advanced in lock-step), each accepted iff it has exactly "
             "the model's members and is sorted under the model's comparator - evaluated inside Coq.",
        note="Trusted: Coq kernel + vm_compute; Model/Order.v hand-written (SQLite value ordering and the 'suffix binds to "
             "the last term' rule are modelled), tied by the correspondence; the stored JSON text of attributes/extra is "
             "read back and used as the sort key for those columns. Ties are left free (SQLite does not fix them). Empty "
             "featuretype collections (treated by the code as no filter) are outside the domain.",
        technique="Coq proof (sort = sorted permutation under a proved total preorder; filter exactness) + differential correspondence with membership+sortedness acceptance",
        design="4 (C11)"),
    "C16": dict(
        text="Coq theorems (Properties/C16.v, closed under the global context) about the model of FeatureDB.merge with the "
             "criteria regenerated from merge_criteria.py on every run: for ARBITRARY criteria the outputs partition the inputs "
             "in order (each input yielded unchanged or a child of exactly one merged output); a feature joins the run exactly "
             "when every criterion accepts (run so far, feature); merged outputs span min start .. max end of their children; "
             "fresh ids are pairwise distinct and were never issued before (via autoid injectivity); with the default criteria "
             "on start-ordered features of one (seqid, strand, type) class consecutive outputs are separated by >= 1 uncovered "
             "base and every base of an output is covered by a member, i.e. the extents are the maximal runs (the interval "
             "union); children_bp is the summed child lengths, and with merge=True (default criteria, start-ordered children of "
             "one class) the NUMBER OF POSITIONS covered by at least one child (C16_children_bp_union, counted over any window). "
             "Inputs of SEVERAL classes: the pass falls apart at every change of class (merge of the whole = merge of the "
             "single-class stretches one after the other, ids included), so for ANY input whose stretches are start-ordered the "
             "outputs are the per-stretch maximal runs, and class-sorted input (merge_all's order) has one stretch per class. "
             "A merged output has >= 2 members; merge_all adds exactly one row per merged output and one level-1 relation per "
             "member, or deletes the members' rows and every relation mentioning them. 'Merging the same objects again', "
             "previously merged objects, ambiguous-value columns and criteria handed over as one-shot iterators "
             "are decided by the correspondence: every multiset of <= 3 (thorough: 4) intervals over 8 positions, "
             "17 criteria sets incl. thresholds and two custom criteria, ~14k cases per quick run compared inside Coq.",
        note="Trusted: Coq kernel + vm_compute; translator for merge_criteria.py; Model/Merge.v (the loop, _finalize_merge, "
             "children_bp, merge_all) hand-written and tied by the correspondence. Known finding F19 (start-ordered but "
             "class-interleaved input is not merged across the interleaving; children_bp(merge=True) then exceeds the per-class "
             "union) is recorded with a Coq refutation (Examples/C16_inhabited.v). The union-cardinality theorem of children_bp is for "
             "children of ONE class (what children(order_by='start') of one featuretype under one parent yields); 'merging again' and "
             "unchanged inputs are not theorems (correspondence + direct spec check only).",
        technique="Coq proof over translator-generated criteria (partition, hull, fresh ids, maximal runs by induction over the pass) + exhaustive small-scope differential correspondence",
        design="4 (C16)"),
    "C15": dict(
        text="Coq theorems (Properties/C15.v, closed under the global context) about the model of FeatureDB.interfeatures "
             "(the running loop with its reused dict, coordinate fix-up and empty-gap suppression) and create_splice_sites: the "
             "output is, in order, exactly one feature per consecutive pair on one seqid with >= 1 base between them and none "
             "otherwise; each spans previous.end+1 .. next.start-1, is typed new_featuretype or inter_A_B, stranded like both "
             "neighbours or '.', carries merge_attributes of the neighbours (+ update_attributes) with several ID values joined by "
             "'-', and a bin recomputed from the new coordinates; N inputs give <= N-1 outputs; splice sites are [start,start+1] "
             "/ [end-1,end] of each such intron with the five/three-prime label table by side and strand. Tied to interface.py by "
             "every list of <= 3 (thorough 4) features over 6 positions x seqid/strand mixtures, 1.2k random lists x flag "
             "combinations, and 200 gene/transcript/exon databases for create_introns/create_splice_sites; inputs and database "
             "are checked to be unchanged; outputs also compared with the declarative gap geometry inside Coq. create_introns / "
             "create_splice_sites over a database state (Model/Introns.v): the transcripts are the level-1 children of every "
             "grandparent-type feature or every parent-type feature, their exons the level-1 children of the exon type sorted by "
             "start (a permutation of those children, strongly sorted), the output per transcript exactly the gaps of its exons; N "
             "separated exons give N-1 introns; a site carries the bin of its own two bases (F25). 200 whole annotations per run "
             "(shared exons, transcripts under two genes, shuffled file order, bin boundaries) go through the import model and "
             "the model's own selection.",
        note="Trusted: Coq kernel + vm_compute; Model/Inter.v, Model/Introns.v and Model/Attrs.v hand-written, tied by the correspondence. "
             "float() (numeric_sort) is modelled on plain decimals of <= 15 digits only; values like '1e3', 'inf' or non-ASCII "
             "digits make a case out of domain. ORDER BY start is modelled as a stable sort; generated exon starts are distinct, "
             "so ties (whose order SQL leaves open) do not occur.",
        technique="Coq proof (loop = declarative gaps by induction; splice-site geometry) + exhaustive small-scope differential correspondence",
        design="4 (C15)"),
    "C17": dict(
        text="Coq theorems (Properties/C17.v, 18 statements, closed under the global context): Attributes stores a sequence "
             "whatever is set (scalar -> one-item list; list/tuple kept; other keys untouched); always_return_list changes only "
             "the view of one-item lists, never what is stored; attributes -> JSON text -> attributes is the identity incl. key "
             "order - relative to an abstract codec, and for the codec modelled as text (Model/Json.v: simplejson.dumps with "
             "compact separators and ensure_ascii, strict simplejson.loads with surrogate-pair handling): loads (dumps a) = a for "
             "every mapping of Unicode scalar values, more generally whenever no high surrogate is directly followed by a low "
             "one (and a witness that this side condition is necessary); merge_attributes yields "
             "per key exactly the union of both arguments' values (numeric_sort on or off), sorted and duplicate-free - strictly "
             "ascending by code point, or with numeric_sort, when all values of a key are decimals, the same values with every "
             "earlier one numerically <= every later one (C17_numeric_values_sorted); Feature "
             "equality holds iff the printed lines are equal and equal Features hash alike. Tied to attributes.py/helpers.py/"
             "feature.py by 5k cases per quick run: assignment sequences through Feature[k] and .attributes[k] read under both "
             "switch settings, _jsonify's text compared character by character and _unjsonify compared with the model decoder on "
             "adversarial Unicode (controls, quotes, backslashes, astral and surrogate code points) and on ~1500 damaged or "
             "hand-written JSON texts, "
             "merge_attributes pairs with numeric/non-numeric values (arguments deep-compared before/after), the stored text decoded "
             "again after in-place edits of an earlier decode, Feature pairs "
             "compared by ==, str and hash against the printer model.",
        note="Trusted: Coq kernel + vm_compute; Model/Container.v, Model/Attrs.v hand-written, tied by the correspondence. "
             "simplejson is modelled (Model/Json.v, the object-of-string-lists sub-grammar and the dialect dictionary) and tied by "
             "the correspondence. float() for numeric_sort is modelled on plain decimals <= 15 digits. That "
             "merge_attributes does not modify its arguments is not expressible about immutable Gallina values: decided by the "
             "correspondence only.",
        technique="Coq proof (container laws, union theorem, equality via printed line) + differential correspondence; JSON relative to an oracle",
        design="4 (C17)"),
    "C18": dict(
        text="Coq theorems (Properties/C18.v, 11 statements, closed under the global context): len = end-start+1 (also on the "
             "expression regenerated from Feature.__len__); sequence() is exactly bases start..end of the record (index-wise), "
             "its length equals len(feature) on either strand, it is the plain slice unless use_strand and strand '-', where it is "
             "the reverse complement (involutive on pyfaidx's whole complement table, ACGTN and the IUPAC codes in both cases); bed12 = the twelve stated fields (chromStart=start-1, chromEnd=end, "
             "block sizes = lengths, block starts relative to chromStart with first 0 and last block ending at chromEnd, thick "
             "bounds from first/last thick feature) and Err ValueError when the blocks do not span the feature; to_bed12 "
             "likewise. bed12 by id = bed12 by Feature, thin mode, custom block types, colours and pyfaidx itself are decided by "
             "the correspondence (~2k cases per quick run incl. transcripts whose children are written in descending or "
             "shuffled file order).",
        note="Trusted: Coq kernel + vm_compute; Model/Bed.v hand-written, tied by the correspondence; pyfaidx is modelled as "
             "record[start-1:stop] plus pyfaidx's complement table incl. IUPAC codes (oracle instance); out-of-range slices are "
             "out of domain; block features arrive in the order children(order_by='start') yields them (an input of the model); children with equal starts (unordered in SQL) are not generated.",
        technique="Coq proof (slice/length arithmetic, BED12 field theorems) + differential correspondence incl. pyfaidx",
        design="4 (C18)"),
    "C14": dict(
        text="Coq theorems (Properties/C14.v, 10 statements, closed under the global context) about the model of "
             "_FileIterator._custom_iter and of the directives list object create_db shares with the iterator: before any "
             "##FASTA / '>' line every line contributes by its kind, in file order ('##x' -> directive 'x', '#...' and blank -> "
             "nothing, anything else -> a feature); nothing at or after ##FASTA or a '>' header is parsed; peeking n sees exactly "
             "the first n+1 features and a prefix of the directives; with the list cleared in place the database creator ends up "
             "with ALL directives for every checklines value, while the pre-fix rebinding provably loses the ones after the "
             "window (refutation theorem). Tied to iterators.py/create.py/interface.py by every interleaving of 7 line kinds up "
             "to length 5 (thorough 6) and long random files, checklines 0/1/2/10/40, LF and CRLF, path and from_string input, "
             "comparing iterated features, DataIterator.directives after construction and after iteration, db.directives after "
             "import and after reopening the file, inside Coq; in a third of the cases a second iterator over another annotation "
             "advances meanwhile and create_db's transform reads that annotation too, and the file is reopened after an "
             "update() that was refused.",
        note="Trusted: Coq kernel + vm_compute; Model/Iter.v hand-written (universal-newline reading, rstrip, prefix tests, "
             "generator suspension point, list-object sharing), tied by the correspondence. Feature lines are simple lines whose "
             "printed form equals the line. Files with lone-CR line ends or lines starting with white space are out of domain.",
        technique="Coq proof (scan = per-line classification before FASTA, peek prefix, shared-list flow incl. refutation of the rebinding variant) + exhaustive small-scope differential correspondence",
        design="4 (C14)"),
    "C13": dict(
        text="Coq theorems (Properties/C13.v, 10 statements, closed under the global context) about the model of "
             "_FeatureIterator.peek and _BaseIterator.__iter__: peek(n) returns the first n+1 items and leaves the contents "
             "unchanged for every n (0 and beyond the length included), for lists and one-shot iterators alike, also when peeked "
             "twice (DataIterator handed to create_db); list and one-shot sources are indistinguishable afterwards; for ANY "
             "(stateful) transform the final state is the fold over all items in order - exactly one call each - and the output "
             "is exactly the non-false results in order; inspect()'s count is min(limit, n); for every file of C01's domain the "
             "path form (peek, vote, second pass with the chosen dialect: Model/File.v import_model) yields the same dialect and "
             "the same features as the ready-made-objects form (objects_model: vote over the objects' own dialects), list or "
             "one-shot (C13_path_equals_objects, C13_oneshot_equals_list). The equivalence of the other input "
             "forms (path, gzip, string, list, generators, iter/map/chain objects, DataIterator, FeatureDB), of "
             "DataIterator iteration and create_db, and Python truthiness of transform results is decided by the correspondence: "
             "11 forms x checklines 0..n+2 x 6 transforms with call counters (~670 cases, each running all forms; half of the "
             "annotations mix lines that end their attribute column with ';' and lines that do not, ready-made Feature objects "
             "carry the dialect of their own line, and the dialect vote for that entry is modelled in Corr/C13.v), all (n, "
             "length) <= 8 for peek, inspect with limits.",
        note="Trusted: Coq kernel + vm_compute; Model/Iter.v hand-written, tied by the correspondence. Which Python objects "
             "count as one-shot (hasattr __next__) is runtime behaviour the model abstracts as SList/SIter: the correspondence "
             "covers generator expressions/functions, iter(), map(), itertools.chain. URL input (_UrlIterator) is not modelled.",
        technique="Coq proof (peek losslessness, transform-once by induction) + differential correspondence over input forms",
        design="4 (C13)"),
}

CLAIMED["C19"] = dict(
        text="PARTIAL (runtime-backed). Coq theorems (Properties/C19.v, 7 statements, closed under the global context) about the "
             "model of Model/Store.v (file system = path -> committed content; create_db with force unlinks first, without "
             "force the schema script fails on the existing database before any row is written; read-style calls are "
             "functions of the content, merge() only draws ids from in-memory counters): without force an existing database "
             "makes create_db fail and the whole file system is unchanged; with force the path holds exactly what the importer "
             "makes of the new input, independently of what was there; other paths are untouched; any sequence of read-style "
             "calls leaves the file and the .bak alone, so a reopen observes the same features, relations and id counters. "
             "What the model cannot exhibit - that sqlite really fails the schema script before touching the file, and that no "
             "read path of interface.py issues a write - is decided by the correspondence on the running code: 150 (old "
             "database, new input) pairs per quick run (ids disjoint / overlapping / equal, force on/off, a fifth of the old "
             "databases emptied again by delete() - still databases, still refused) with sha256 of the "
             "file before/after and the tables afterwards compared with the model's prediction inside Coq; 150 file databases "
             "with sequences of 3-12 read-style calls over 18 methods with generated arguments (relation levels up to 4; a third "
             "of the sequences also contain a write call that fails before its commit, whose partial work no later read may make "
             "permanent; a quarter of the databases have a stored dialect that lacks a key, and opening them is a read), recording EVERY statement the "
             "FeatureDB connection executes (sqlite3 trace callback: only SELECT/PRAGMA allowed), sha256 of the file, and "
             "tables, directives, meta rows and counters through a fresh connection before and after.",
        note="Trusted: Coq kernel + vm_compute; Model/Store.v hand-written. The theorems are about the model only; the runtime "
             "part (sqlite executescript atomicity, os.unlink, absence of writes on read paths) rests on the differential/"
             "trace check, which can miss a write on a read path its generator does not reach (18 methods, generated "
             "arguments). Statement classification is by first keyword. File databases; merge_strategy create_unique so that "
             "a create_db that wrongly proceeds is visible whatever the ids.",
        technique="Coq proof on a file-system/state-machine model (refusal, replacement, purity of reads by induction over call sequences); runtime part by differential correspondence with statement tracing and file hashing",
        design="4 (C19)")

CLAIMED["C20"] = dict(
        text="PARTIAL (runtime-backed). Coq theorems (Properties/C20.v, 7 statements, closed under the global context) about the "
             "interleaving model of Model/Conc.v (any number of processes, each a straight-line program over one shared "
             "directory: create a temp file under a name not in use at that moment, write, read back, unlink; stacks of live "
             "files per process; a schedule is any interleaving), for ALL process counts, programs and schedules, by induction "
             "over the schedule with the invariant 'live names are pairwise distinct, owned, and hold exactly their owner's "
             "writes': every finished process has read back exactly what it reads alone (C20_independent); when all are done "
             "and every program removes what it creates the directory is empty (C20_tempdir_clean); live names are never "
             "shared (C20_names_exclusive); the importers' programs - path input and, since the repair of F15, from_string "
             "input - are balanced, and alone an import reads back what it wrote; the pre-fix from_string program provably "
             "leaves one file (refutation). Real overlap (processes, kernel, sqlite) is outside the model and decided by "
             "the correspondence on the running code: every interleaving of the temp-file sync points of 2 forked "
             "create_db processes and sampled ones of 3 (file barriers patched into tempfile.NamedTemporaryFile/os.unlink "
             "of the children), free-running groups of 4-24 processes with and without start offsets, GFF3/GTF (with and without inference), path and "
             "from_string inputs, one shared temp dir; each output is compared with the solitary run inside Coq, the merged "
             "temp-file trace is replayed against the model's directory discipline (a name is created only while not in "
             "use, removed only by its creator) and against the create/remove skeleton of the model's programs, and the "
             "directory listing must be empty; 2-12 concurrent readers must all see the full content.",
        note="Trusted: Coq kernel + vm_compute; Model/Conc.v hand-written; oracle hypothesis of the theorems: the chosen temp "
             "name is not in use (O_EXCL of NamedTemporaryFile; satisfiable: Examples/C20_inhabited.v). The theorems say "
             "nothing about sqlite or the OS; races inside them can only be sampled by the free-running groups. Children are "
             "forked from the harness (no exec). Finding F15 (from_string left its temp copy behind) was reported by this "
             "check and fixed in /repo.",
        technique="Coq proof on an interleaving model (invariant by induction over schedules); runtime part by driven-schedule and free-running differential correspondence with temp-file trace replay",
        design="4 (C20)")

PENDING_REASON = "machinery for this property is not built yet in this revision (planned, see DESIGN.md section 4/9); not claimed until its check exists"


def main():
    checks = []
    for pid in ALL:
        if pid not in CLAIMED:
            continue
        c = CLAIMED[pid]
        checks.append({
            "property_id": pid,
            "quick_cmd": "bin/check %s --tier quick" % pid,
            "thorough_cmd": "bin/check %s --tier thorough" % pid,
            "evidence_file": "/verif/evidence/%s.json" % pid,
            "replay_cmd_template": "bin/check %s --replay {path}" % pid,
            "engine": "coq-proof+correspondence",
            "level_claimed": {"category": "proof", "text": c["text"], "design_ref": "DESIGN.md section " + c["design"]},
            "level_note": c["note"],
            "technique": c["technique"],
        })
    man = {
        "version": 1,
        "setup_cmd": "bin/setup",
        "hooks": {
            "guard": "GFFUTILS_VERIF",
            "enable": "no source hook exists: checks import /repo's working tree directly (PYTHONPATH=/repo); "
                      "SQL tracing uses sqlite3 set_trace_callback and C20 barriers are monkey-patched in the child driver",
            "baseline_off_cmd": "cd /repo && /venv/bin/python -m pytest -ra -q -p no:cacheprovider --timeout=900 --continue-on-collection-errors",
            "source_commits": [],
            "add_only": True,
        },
        "engines": [{
            "name": "coq-proof+correspondence", "path": "/verif/bin/check",
            "serves_properties": sorted(CLAIMED),
            "kind_free_text": "Coq 8.16.1 theorems about a Gallina model; model tied to /repo by a Python-ast "
                              "translator (bins.py, merge_criteria.py, constants) and by a correspondence check "
                              "that evaluates the model inside Coq (vm_compute) on the implementation's inputs and outputs",
        }],
        "checks": checks,
        "notes": "Known findings and fixes: /verif/known_findings.json. Design: /verif/DESIGN.md.",
        "not_applicable": [{"property_id": p, "reason": NA.get(p, PENDING_REASON)} for p in ALL if p not in CLAIMED],
    }
    with open(os.path.join(VERIF, "MANIFEST.json"), "w") as fh:
        json.dump(man, fh, indent=1)
        fh.write("\n")


NA = {}

if __name__ == "__main__":
    main()
